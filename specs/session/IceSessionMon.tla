---- MODULE IceSessionMon ----
(* Verdicts for C01-C06 and C20 from the recorded observations of two real     *)
(* agents. No dependence on IceSession!Next: every predicate is a statement     *)
(* about what was observed (snapshots taken through the task loop, datagrams    *)
(* on the simulated wire, callbacks), plus history variables kept here.         *)
EXTENDS Naturals, Integers, Sequences, FiniteSets, TLC, Json
CONSTANTS D, F, H,     \* disconnected / failed timeouts, transaction lifetime of the run (ms)
          RFilter,     \* per agent: remote addresses its remote IP filter rejects
          DD, DC,      \* per agent: disconnected timeout in effect / disconnected part of the initial checking deadline (lite defaults differ)
          TraceFile, NatMap, Reach, LocA, LocB, Lite, CheckPrio, MaxReq,
          Check        \* names of the predicates this run judges
Tr == ndJsonDeserialize(TraceFile)
Agents == {"A", "B"}
Other(a) == IF a = "A" THEN "B" ELSE "A"
OwnerOfDst(d) == IF d \in LocA THEN "A" ELSE "B"
Rng(s) == {s[k] : k \in 1..Len(s)}
\* local address behind a wire address
Unwire(d) == IF \E x \in DOMAIN NatMap : NatMap[x] = d /\ x # d THEN CHOOSE x \in DOMAIN NatMap : NatMap[x] = d /\ x # d ELSE d

VARIABLES l, pre, cur, ev,
          idmap,      \* history: <<gen, id, l, r>> ever listed
          answered,   \* history: <<gen, l, r>> for which an authenticated, transaction-matched, symmetric success response arrived
          ucAnswered, \* ... and whose request carried USE-CANDIDATE
          nomRx,      \* history: <<gen, l, r>> on which an authenticated request with USE-CANDIDATE or a nomination value arrived
          chk,        \* history: per agent, time of the first tick in Checking that followed a tick (or the start) not in Checking
          ltc,        \* history: per agent, connection state at the end of its last tick
          acc,        \* history: per agent, highest valued nomination a controlled agent had to accept: [v, l, r] (v = 0 none)
          acked,      \* history: per agent, highest nomination value whose success response a controlling agent has processed
          iss,        \* history: highest nomination value issued through the API and its pair [v, l, r]
          nomTids,    \* history: transaction ids of the requests that carried a nomination value
          nomLost,    \* history: a valued request or the answer to one was dropped in this trace
          nomKind,    \* history: per agent, {<<l, r, v>>} = value (0 = plain USE-CANDIDATE) of the last nominating request received on pair (l, r)
          ledger,     \* history: per agent, the harness's own record of outstanding requests {<<tid, dst, at, gen>>}
          pled,       \* ledger before the last step
          base,       \* history: per agent, [key, tally, cnt] = selected pair (l,r), harness tallies and that pair's counters when it became selected
          defv,       \* history: per agent, {<<l, r>>} = pairs on which a valued nomination arrived while the pair was not valid yet and that have not become valid since (the value stays deferred, a later plain USE-CANDIDATE does not erase it)
          pdefv,      \* defv before the last step
          held,       \* history: per agent, the datagrams (<<pid, len>>) that reached a reader that had stopped reading, in arrival order
          pheld, pgrace, \* held and grace before the last step
          cut,        \* history: a datagram was used up by a Read into a buffer that was too short (how it is counted is nobody's statement)
          grace,      \* history: per agent, the reader stopped while inside Read: the next datagram still goes straight through
          tickTx,     \* history: per agent, {<<gen, l, r, tid>>} = the requests it sent from its own timer (ordinary checks; a triggered check is sent while a datagram is handled)
          txOK        \* history: per agent, transaction ids of its requests whose success response reached it (signed, from the address asked, within the lifetime)
vars == <<l, pre, cur, ev, idmap, answered, ucAnswered, nomRx, chk, ltc, acc, acked, iss, base, ledger, pled, nomKind, nomTids, nomLost, tickTx, txOK, defv, pdefv, held, grace, pheld, pgrace, cut>>

E0 == [a \in Agents |-> {}]
CountIn(s, x) == Cardinality({k \in 1..Len(s) : s[k] = x})
NewMsgs(e, o) == {x \in {e.post.net[k] : k \in 1..Len(e.post.net)} :
                     CountIn(e.post.net, x) > CountIn(o.net, x) - (IF e.ev \in {"Deliver", "Vanish", "Drop"} /\ x = e.m THEN 1 ELSE 0)}
SelKeyOf(o, a) == IF o[a].sel = 0 \/ ~\E p \in Rng(o[a].pairs) : p.id = o[a].sel THEN <<>>
                  ELSE LET p == CHOOSE p \in Rng(o[a].pairs) : p.id = o[a].sel IN <<p.l, p.r>>
NoNom == [v |-> 0, l |-> "", r |-> ""]
IsDeliverOf(e) == e.ev = "Deliver"
RcvOf(e) == OwnerOfDst(e.m.dst)
ReqAuthOKOf(e, o) == LET b == RcvOf(e) IN e.m.user = <<o[b].gen, o[b].rgen>> /\ e.m.key = <<b, o[b].gen>>
RespAuthOKOf(e, o) == LET b == RcvOf(e) IN e.m.key = <<Other(b), o[b].rgen>>
KnownIn(o, a, src) == \E r \in Rng(o[a].remotes) : r.addr = src
SocketOpenOf(e, o) == Unwire(e.m.dst) \in Rng(o[RcvOf(e)].locals)

Init == /\ l = 2 /\ pre = Tr[1].post /\ cur = Tr[1].post /\ ev = Tr[1]
        /\ idmap = [a \in Agents |-> {<<Tr[1].post[a].gen, p.id, p.l, p.r>> : p \in Rng(Tr[1].post[a].pairs)}]
        /\ answered = E0 /\ ucAnswered = E0 /\ nomRx = E0
        /\ chk = [a \in Agents |-> 0 - 1] /\ ltc = [a \in Agents |-> "Unknown"]
        /\ acc = [a \in Agents |-> NoNom] /\ acked = [a \in Agents |-> 0] /\ iss = NoNom
        /\ ledger = E0 /\ pled = E0 /\ nomKind = E0 /\ nomTids = {} /\ nomLost = FALSE /\ tickTx = E0 /\ txOK = E0 /\ defv = E0 /\ pdefv = E0 /\ held = [a \in Agents |-> <<>>] /\ grace = [a \in Agents |-> FALSE] /\ pheld = [a \in Agents |-> <<>>] /\ pgrace = [a \in Agents |-> FALSE] /\ cut = FALSE
        /\ base = [a \in Agents |-> [key |-> <<>>, tally |-> <<0, 0, 0, 0>>, cnt |-> <<0, 0, 0, 0>>]]
Step == /\ l <= Len(Tr) /\ l' = l + 1 /\ pre' = cur /\ cur' = Tr[l].post /\ ev' = Tr[l]
        /\ LET e == Tr[l]  reset == e.ev = "Reset" IN
           /\ idmap' = [a \in Agents |->
                 LET nw == {<<e.post[a].gen, p.id, p.l, p.r>> : p \in Rng(e.post[a].pairs)} IN
                 IF reset THEN nw ELSE idmap[a] \cup nw]
           /\ LET okSucc == IsDeliverOf(e) /\ e.m.kind = "succ" /\ SocketOpenOf(e, cur) /\ RespAuthOKOf(e, cur)
                            /\ KnownIn(cur, RcvOf(e), e.m.src)
                            /\ \E x \in Rng(cur[RcvOf(e)].pend) : x.tid = e.m.tid /\ x.dst = e.m.src
                  b == RcvOf(e)
                  key == <<cur[b].gen, Unwire(e.m.dst), e.m.src>>
                  uc == \E x \in Rng(cur[b].pend) : x.tid = e.m.tid /\ x.dst = e.m.src /\ x.uc
                  okNom == IsDeliverOf(e) /\ e.m.kind = "req" /\ SocketOpenOf(e, cur) /\ ReqAuthOKOf(e, cur)
                           /\ (e.m.uc \/ e.m.nom # 0) /\ e.m.rolea # cur[b].role
              IN /\ answered' = [a \in Agents |-> IF reset THEN {} ELSE IF okSucc /\ a = b THEN answered[a] \cup {key} ELSE answered[a]]
                 /\ ucAnswered' = [a \in Agents |-> IF reset THEN {} ELSE IF okSucc /\ uc /\ a = b THEN ucAnswered[a] \cup {key} ELSE ucAnswered[a]]
                 /\ nomRx' = [a \in Agents |-> IF reset THEN {} ELSE IF okNom /\ a = b THEN nomRx[a] \cup {key} ELSE nomRx[a]]
           /\ chk' = [a \in Agents |->
                 IF reset THEN 0 - 1
                 ELSE IF e.ev = "Tick" /\ e.ag = a /\ cur[a].conn = "Checking" /\ ltc[a] # "Checking" THEN e.post.now
                 ELSE chk[a]]
           /\ ltc' = [a \in Agents |-> IF reset THEN "Unknown" ELSE IF e.ev = "Tick" /\ e.ag = a THEN e.post[a].conn ELSE ltc[a]]
           /\ acc' = [a \in Agents |->
                 IF reset \/ (e.ev = "Restart" /\ e.ag = a) \/ e.post[a].role # cur[a].role THEN NoNom
                 ELSE IF IsDeliverOf(e) /\ RcvOf(e) = a /\ e.m.kind = "req" /\ e.m.nom # 0 /\ SocketOpenOf(e, cur) /\ ReqAuthOKOf(e, cur)
                         /\ cur[a].role = "controlled" /\ e.m.rolea # cur[a].role /\ (acc[a].v = 0 \/ e.m.nom > acc[a].v)
                      THEN [v |-> e.m.nom, l |-> Unwire(e.m.dst), r |-> e.m.src]
                 ELSE acc[a]]
           /\ acked' = [a \in Agents |->
                 IF reset \/ (e.ev = "Restart" /\ e.ag = a) THEN 0
                 ELSE IF IsDeliverOf(e) /\ RcvOf(e) = a /\ e.m.kind = "succ" /\ SocketOpenOf(e, cur) /\ RespAuthOKOf(e, cur)
                         /\ KnownIn(cur, a, e.m.src) /\ cur[a].role = "controlling"
                         /\ \E x \in Rng(cur[a].pend) : x.tid = e.m.tid /\ x.dst = e.m.src /\ x.nom > acked[a]
                      THEN (CHOOSE x \in Rng(cur[a].pend) : x.tid = e.m.tid /\ x.dst = e.m.src).nom
                 ELSE acked[a]]
           /\ nomKind' = [a \in Agents |->
                 IF reset \/ (e.ev = "Restart" /\ e.ag = a) THEN {}
                 ELSE IF IsDeliverOf(e) /\ RcvOf(e) = a /\ e.m.kind = "req" /\ (e.m.uc \/ e.m.nom # 0) /\ SocketOpenOf(e, cur) /\ ReqAuthOKOf(e, cur)
                         /\ e.m.rolea # cur[a].role
                      THEN {x \in nomKind[a] : ~(x[1] = Unwire(e.m.dst) /\ x[2] = e.m.src)} \cup {<<Unwire(e.m.dst), e.m.src, e.m.nom>>}
                 ELSE nomKind[a]]
           /\ defv' = [a \in Agents |->
                 IF reset \/ (e.ev = "Restart" /\ e.ag = a) \/ e.post[a].role # cur[a].role THEN {}
                 ELSE LET k == <<Unwire(e.m.dst), e.m.src>>
                          add == IF IsDeliverOf(e) /\ RcvOf(e) = a /\ e.m.kind = "req" /\ e.m.nom # 0 /\ SocketOpenOf(e, cur) /\ ReqAuthOKOf(e, cur)
                                    /\ e.m.rolea # cur[a].role /\ ~\E p \in Rng(cur[a].pairs) : p.l = k[1] /\ p.r = k[2] /\ p.st = "S"
                                 THEN {k} ELSE {}
                      IN (defv[a] \cup add) \ {<<p.l, p.r>> : p \in {q \in Rng(e.post[a].pairs) : q.st = "S"}}]
           /\ nomTids' = IF reset THEN {} ELSE nomTids \cup {x.tid : x \in {y \in NewMsgs(e, cur) : y.kind = "req" /\ y.nom # 0}}
           /\ nomLost' = IF reset THEN FALSE
                         ELSE nomLost \/ (e.ev = "Drop" /\ ((e.m.kind = "req" /\ e.m.nom # 0) \/ (e.m.kind = "succ" /\ e.m.tid \in nomTids)))
           /\ pled' = ledger /\ pdefv' = defv /\ pheld' = held /\ pgrace' = grace
           /\ LET toReader(a) == e.ev = "DeliverData" /\ OwnerOfDst(e.d.dst) = a /\ Unwire(e.d.dst) \in Rng(cur[a].locals) /\ KnownIn(cur, a, e.d.src) IN
              /\ grace' = [a \in Agents |-> IF reset THEN FALSE ELSE IF e.ev = "PauseRead" /\ e.ag = a THEN TRUE
                                              ELSE IF toReader(a) \/ (e.ev = "ResumeRead" /\ e.ag = a) THEN FALSE ELSE grace[a]]
              /\ cut' = (IF reset THEN FALSE ELSE cut \/ (e.ev = "ShortRead" /\ held[e.ag] # <<>>))
              /\ held' = [a \in Agents |-> IF reset \/ (e.ev = "ResumeRead" /\ e.ag = a) THEN <<>>
                                             ELSE IF e.ev = "ShortRead" /\ e.ag = a /\ held[a] # <<>> THEN Tail(held[a])
                                             ELSE IF toReader(a) /\ cur[a].paused /\ ~grace[a] THEN Append(held[a], <<e.d.pid, e.d.len>>) ELSE held[a]]
           /\ tickTx' = [a \in Agents |->
                 IF reset THEN {}
                 ELSE IF e.ev = "Tick" /\ e.ag = a
                      THEN tickTx[a] \cup {<<e.post[a].gen, Unwire(y.src), y.dst, y.tid>> : y \in {z \in NewMsgs(e, cur) : z.kind = "req" /\ z.from = a}}
                 ELSE tickTx[a]]
           /\ txOK' = [a \in Agents |->
                 IF reset THEN {}
                 ELSE IF IsDeliverOf(e) /\ RcvOf(e) = a /\ e.m.kind = "succ" /\ SocketOpenOf(e, cur) /\ RespAuthOKOf(e, cur) /\ KnownIn(cur, a, e.m.src)
                         /\ \E x \in ledger[a] : x[1] = e.m.tid /\ x[2] = e.m.src /\ x[4] = cur[a].gen /\ e.post.now - x[3] < H
                      THEN txOK[a] \cup {e.m.tid}
                 ELSE txOK[a]]
           /\ ledger' = [a \in Agents |->
                 IF reset \/ (e.ev = "Restart" /\ e.ag = a) \/ (e.post[a].conn = "Failed" /\ cur[a].conn # "Failed") THEN {}
                 ELSE LET sent == {<<x.tid, x.dst, e.post.now, cur[a].gen>> : x \in {y \in NewMsgs(e, cur) : y.kind = "req" /\ y.from = a /\ e.ev # "Dup"}}
                          used == IF IsDeliverOf(e) /\ RcvOf(e) = a /\ e.m.kind = "succ" /\ SocketOpenOf(e, cur) /\ RespAuthOKOf(e, cur) /\ KnownIn(cur, a, e.m.src)
                                  THEN {x \in ledger[a] : x[1] = e.m.tid} ELSE {}
                      IN (ledger[a] \ used) \cup sent]
           /\ base' = [a \in Agents |->
                 LET k == SelKeyOf(e.post, a) IN
                 IF k = base[a].key /\ ~reset THEN base[a] ELSE [key |-> k, tally |-> e.post[a].tally, cnt |-> e.post[a].selCnt]]
           /\ iss' = IF reset THEN NoNom
                      ELSE IF e.ev = "Renominate" /\ e.err = "" /\ e.v > iss.v THEN [v |-> e.v, l |-> e.l, r |-> e.r]
                      ELSE iss
Spec == Init /\ [][Step]_vars
\* ---------------------------------------------------------------- helpers
Count(s, x) == Cardinality({k \in 1..Len(s) : s[k] = x})
\* datagrams emitted by the step: multiset difference (cur.net) - (pre.net minus the consumed datagram)
Consumed == IF ev.ev \in {"Deliver", "Vanish", "Drop"} THEN ev.m ELSE [none |-> TRUE]
PreCount(x) == Count(pre.net, x) - (IF x = Consumed THEN 1 ELSE 0)
Emitted == {x \in Rng(cur.net) : Count(cur.net, x) > PreCount(x)}
AgentView(o, a) == [role |-> o[a].role, conn |-> o[a].conn, locals |-> o[a].locals, remotes |-> o[a].remotes,
                    pairs |-> o[a].pairs, pend |-> o[a].pend, sel |-> o[a].sel, nomPair |-> o[a].nomPair, rx |-> o[a].rx]
NoCallbacks(a) == cur[a].cbConn = <<>> /\ cur[a].cbSel = <<>> /\ cur[a].cbCand = <<>>
Known(o, a, src) == KnownIn(o, a, src)
IsDeliver == ev.ev = "Deliver"
Rcv == OwnerOfDst(ev.m.dst)
ReqAuthOK == ReqAuthOKOf(ev, pre)
RespAuthOK == RespAuthOKOf(ev, pre)
SocketOpen == SocketOpenOf(ev, pre)
NoPair == [id |-> 0, l |-> "?", r |-> "?", st |-> "?", nom |-> FALSE, nos |-> FALSE, reqs |-> 0, pr |-> <<0, 0, 0>>]
PairOf(o, a, id) == IF \E p \in Rng(o[a].pairs) : p.id = id THEN CHOOSE p \in Rng(o[a].pairs) : p.id = id ELSE NoPair
SelKey(o, a) == IF o[a].sel = 0 THEN <<>> ELSE LET p == PairOf(o, a, o[a].sel) IN <<p.l, p.r>>
\* lexicographic comparison of the three priority limbs
PrLess(x, y) == x[1] < y[1] \/ (x[1] = y[1] /\ (x[2] < y[2] \/ (x[2] = y[2] /\ x[3] < y[3])))
\* ---------------------------------------------------------------- C01
InSync(o) == o["A"].gen = o["B"].rgen /\ o["B"].gen = o["A"].rgen
MirrorIn(o) == LET pa == PairOf(o, "A", o["A"].sel)  pb == PairOf(o, "B", o["B"].sel)
               IN NatMap[pa.l] = pb.r /\ NatMap[pb.l] = pa.r
\* LocB: B's local addresses (constant of the configuration)
BothWays(la, lb) == <<NatMap[la], NatMap[lb]>> \in Reach /\ <<NatMap[lb], NatMap[la]>> \in Reach
LocalsA == {x \in LocA : NatMap[x] # x \/ ~\E y \in LocA : NatMap[y] = x /\ y # x}
HasPath == \E la \in LocalsA : \E lb \in LocB : BothWays(la, lb)
C01_Mirror == (ev.ev = "DrainEnd" /\ cur["A"].sel # 0 /\ cur["B"].sel # 0 /\ InSync(cur)) => MirrorIn(cur)
\* the convergence obligation: an agent pair that still can (a two-way path whose pairs are not
\* exhausted on either side, opposite roles or distinct tie-breakers, nobody Failed) has connected
\* after the fair, loss-free suffix
\* "within the per-pair retry budget": the pair has not failed, and a controlling agent (which sends no triggered checks)
\* can still send a check of its own on it
Usable(o, a, lc, rm) == ~\E p \in Rng(o[a].pairs) : p.l = lc /\ p.r = rm /\
                           (p.st = "F" \/ ((o[a].role = "controlling" \/ o["A"].role = o["B"].role) /\ p.st = "I" /\ p.reqs > MaxReq))
\* the same clause counted on the wire: of the ordinary checks the agent sent on the pair in this generation, fewer than the
\* whole budget (1 + MaxReq) went unanswered by the end of the suffix - whatever the agent's own counters and pair states say
\* (a check the peer triggered is not the agent's timer; an answer that arrives late still is an answer)
WithinBudget(a, lc, rm) ==
  Cardinality({x \in tickTx[a] : x[1] = cur[a].gen /\ x[2] = lc /\ x[3] = rm /\ x[4] \notin txOK[a]}) <= MaxReq
CanConverge(o) ==
  /\ \A a \in Agents : o[a].conn \in {"Checking", "Connected", "Disconnected"}
  /\ \E la \in LocalsA : \E lb \in LocB :
       /\ BothWays(la, lb)
       /\ Usable(o, "A", la, NatMap[lb]) \/ WithinBudget("A", la, NatMap[lb])
       /\ Usable(o, "B", lb, NatMap[la]) \/ WithinBudget("B", lb, NatMap[la])
C01_Converges == (ev.ev = "DrainEnd" /\ CanConverge(ev.pre)) =>
                    \A a \in Agents : cur[a].conn = "Connected" /\ cur[a].sel # 0
C01_NeverWithoutPath == ~HasPath => \A a \in Agents : cur[a].sel = 0 /\ cur[a].conn \notin {"Connected", "Disconnected"}
                                                      /\ "Connected" \notin Rng(cur[a].cbConn)
\* ---------------------------------------------------------------- C02
Inert == AgentView(cur, Rcv) = AgentView(pre, Rcv) /\ Emitted = {} /\ NoCallbacks(Rcv)
C02_BadRequestInert == (IsDeliver /\ ev.m.kind = "req" /\ ~ReqAuthOK) => Inert
C02_BadResponseInert == (IsDeliver /\ ev.m.kind = "succ" /\ (~RespAuthOK \/ ~Known(pre, Rcv, ev.m.src))) => Inert
C02_ErrorInert == (IsDeliver /\ ev.m.kind = "err") => Inert
\* non-Binding methods change nothing, whatever class, credentials and transaction id they carry
C02_NonBindingInert == (IsDeliver /\ ev.m.kind = "other") => Inert
C02_IndicationOnlyLiveness ==
  (IsDeliver /\ ev.m.kind = "ind") =>
     /\ Emitted = {} /\ NoCallbacks(Rcv)
     /\ [AgentView(cur, Rcv) EXCEPT !.rx = <<>>] = [AgentView(pre, Rcv) EXCEPT !.rx = <<>>]
     /\ (~Known(pre, Rcv, ev.m.src) => cur[Rcv].rx = pre[Rcv].rx)
     /\ \A r \in DOMAIN cur[Rcv].rx : r # ev.m.src => cur[Rcv].rx[r] = pre[Rcv].rx[r]
\* a correctly signed success response that matches no outstanding transaction to exactly this source
\* changes at most the liveness timestamp of the (known) source and the set of outstanding transactions
\* (expiry, consumption of the matching id)
Matched == \E x \in Rng(pre[Rcv].pend) : x.tid = ev.m.tid /\ x.dst = ev.m.src
\* the same question answered from the harness's own ledger: sent by this generation to exactly this address, less than H ago
Outstanding == \E x \in pled[Rcv] : x[1] = ev.m.tid /\ x[2] = ev.m.src /\ x[4] = pre[Rcv].gen /\ cur.now - x[3] < H
C02_UnmatchedResponse ==
  (IsDeliver /\ ev.m.kind = "succ" /\ RespAuthOK /\ Known(pre, Rcv, ev.m.src) /\ ~Matched) =>
     /\ Emitted = {} /\ NoCallbacks(Rcv)
     /\ [AgentView(cur, Rcv) EXCEPT !.rx = <<>>, !.pend = <<>>] = [AgentView(pre, Rcv) EXCEPT !.rx = <<>>, !.pend = <<>>]
     /\ \A r \in DOMAIN cur[Rcv].rx : r # ev.m.src => cur[Rcv].rx[r] = pre[Rcv].rx[r]
\* a pair changes state on a success response only if the transaction is outstanding to exactly that source
C02_MatchedOnly ==
  (IsDeliver /\ ev.m.kind = "succ") =>
     \A p \in Rng(cur[Rcv].pairs) : \A qq \in Rng(pre[Rcv].pairs) :
        (p.id = qq.id /\ p.st # qq.st) => (Outstanding /\ RespAuthOK /\ p.l = Unwire(ev.m.dst) /\ p.r = ev.m.src)
\* a response that answers nothing outstanding never changes the selection or the connection state either
C02_StaleResponseInert ==
  (IsDeliver /\ ev.m.kind = "succ" /\ ~Outstanding) =>
     (cur[Rcv].sel = pre[Rcv].sel /\ cur[Rcv].conn = pre[Rcv].conn /\ cur[Rcv].pairs = pre[Rcv].pairs /\ Emitted = {})
\* ---------------------------------------------------------------- C03
Full(a) == ~Lite[a]
SelChanged(a) == cur[a].sel # 0 /\ SelKey(cur, a) # SelKey(pre, a)
C03_SelValidated ==
  \A a \in Agents : (SelChanged(a) /\ Full(a) /\ ev.ev # "Reset") =>
     LET k == <<cur[a].gen>> \o SelKey(cur, a) IN
     /\ k \in answered[a]
     /\ (cur[a].role = "controlling" => k \in ucAnswered[a])
     /\ (cur[a].role = "controlled" => k \in nomRx[a])
\* the pair that becomes selected is, as the agent lists it, a pair whose own check has succeeded (not a copy of it that a
\* supersession has dropped from the list)
C03_SelectedIsValid == \A a \in Agents : (SelChanged(a) /\ Full(a) /\ ev.ev # "Reset") => PairOf(cur, a, cur[a].sel).st = "S"
C03_LiteSelectsOnNomination ==
  \A a \in Agents : (SelChanged(a) /\ Lite[a] /\ cur[a].role = "controlled" /\ ev.ev # "Reset") =>
     (<<cur[a].gen>> \o SelKey(cur, a)) \in nomRx[a]
C03_NoUCFromControlled == \A x \in Emitted : (x.kind = "req" /\ x.from \in Agents /\ x.rolea = "controlled") => (~x.uc /\ x.nom = 0)
C03_LiteNeverRequests == \A x \in Emitted : (x.kind = "req" /\ x.from \in Agents /\ Lite[x.from] /\ x.rolea = "controlled") => FALSE
\* plain USE-CANDIDATE never moves the selection of a priority-checking controlled agent to a lower-priority pair:
\* the nomination that counts is the last nominating request received on the newly selected pair
C03_NoDowngrade ==
  \A a \in Agents :
     (SelChanged(a) /\ pre[a].sel # 0 /\ cur[a].role = "controlled" /\ pre[a].role = "controlled" /\ (Full(a) \/ CheckPrio[a])
      /\ ev.ev = "Deliver" /\ <<SelKey(cur, a)[1], SelKey(cur, a)[2], 0>> \in nomKind[a]
      /\ pdefv[a] \cap {SelKey(cur, a)} = {}      \* ... unless a valued nomination waits on that pair: then the value decides (C20)
      /\ \E p \in Rng(cur[a].pairs) : p.id = pre[a].sel) =>
        ~PrLess(PairOf(cur, a, cur[a].sel).pr, PairOf(cur, a, pre[a].sel).pr)
\* ---------------------------------------------------------------- C05
Conflict == IsDeliver /\ ev.m.kind = "req" /\ ReqAuthOK /\ ev.m.rolea = pre[Rcv].role /\ SocketOpen
Keeps == (pre[Rcv].role = "controlling" /\ ev.m.tbc >= 0) \/ (pre[Rcv].role = "controlled" /\ ev.m.tbc < 0)
C05_Rule ==
  Conflict =>
    /\ IF Keeps THEN /\ cur[Rcv].role = pre[Rcv].role
                     /\ Cardinality(Emitted) = 1 /\ \A x \in Emitted : x.kind = "err" /\ x.tid = ev.m.tid /\ x.dst = ev.m.src
                                                                      /\ x.key = <<Rcv, pre[Rcv].gen>>
               ELSE cur[Rcv].role # pre[Rcv].role /\ Emitted = {}
    /\ cur[Rcv].sel = pre[Rcv].sel
    /\ \A p \in Rng(cur[Rcv].pairs) : \A qq \in Rng(pre[Rcv].pairs) : p.id = qq.id => (p.st = qq.st /\ p.nom = qq.nom /\ p.nos = qq.nos)
\* ... and nothing else moves a role: "resolve by tie-breaker" leaves no room for a switch on a request that is not authenticated,
\* does not carry the receiver's role, or wins the comparison (Dial/Accept set the role the application asked for)
C05_SwitchOnlyOnConflict ==
  \A a \in Agents : (cur[a].role # pre[a].role /\ ev.ev \notin {"Reset", "Start"}) => (Conflict /\ ~Keeps /\ Rcv = a)
\* two agents that started in the same role with distinct tie-breakers are in opposite roles after the fair suffix
C05_OppositeAtEnd == (ev.ev = "DrainEnd" /\ CanConverge(ev.pre)) => cur["A"].role # cur["B"].role
\* ---------------------------------------------------------------- C06
C06_UniqueIds == \A a \in Agents : \A i, j \in 1..Len(cur[a].pairs) : i # j => cur[a].pairs[i].id # cur[a].pairs[j].id
\* a pair is a (local candidate, remote candidate) pair: two remote candidates may share a transport address and differ in type
C06_NoDupPairs == \A a \in Agents : \A i, j \in 1..Len(cur[a].pairs) : i # j =>
                      <<cur[a].pairs[i].l, cur[a].pairs[i].r, cur[a].pairs[i].rt>> # <<cur[a].pairs[j].l, cur[a].pairs[j].r, cur[a].pairs[j].rt>>
C06_PairsFromCurrent == \A a \in Agents : \A p \in Rng(cur[a].pairs) : p.l \in Rng(cur[a].locals) /\ Known(cur, a, p.r)
\* "the selected pair is one of the listed pairs": by id, and it is the listed entry itself (not a superseded copy that kept the id)
C06_SelListed == \A a \in Agents : cur[a].sel # 0 => (cur[a].selListed /\ \E p \in Rng(cur[a].pairs) : p.id = cur[a].sel)
\* an id addresses the listed pair: the agent's id index leads to the checklist entry itself, not to a copy that a supersession left behind
C06_IdAddresses == \A a \in Agents : \A p \in Rng(cur[a].pairs) : p.byId
C06_IdStable == \A a \in Agents : \A x, y \in idmap[a] : (x[1] = y[1] /\ x[2] = y[2]) => x = y
C06_RemotesDeduped == \A a \in Agents : \A i, j \in 1..Len(cur[a].remotes) : i # j =>
                         <<cur[a].remotes[i].addr, cur[a].remotes[i].typ>> # <<cur[a].remotes[j].addr, cur[a].remotes[j].typ>>
\* remote candidates never include addresses rejected by the remote IP filter (peer-reflexive discoveries included) nor TCP-active
\* candidates; a check from a rejected source changes nothing and is not answered
C06_RemoteFilter == /\ \A a \in Agents : /\ \A r \in Rng(cur[a].remotes) : r.addr \notin RFilter[a]
                                          /\ \A p \in Rng(cur[a].pairs) : p.r \notin RFilter[a]
                                          /\ cur[a].tcpActive = 0
                    /\ (IsDeliver /\ ev.m.kind = "req" /\ ev.m.src \in RFilter[Rcv]) => Inert
Empty(o, a) == o[a].pairs = <<>> /\ o[a].locals = <<>> /\ o[a].remotes = <<>> /\ o[a].pend = <<>> /\ o[a].sel = 0
C06_NoResidue == (ev.ev = "Restart" => Empty(cur, ev.ag))
                 /\ \A a \in Agents : (cur[a].conn = "Failed" /\ pre[a].conn # "Failed") => Empty(cur, a)
StripPr(ps) == [k \in 1..Len(ps) |-> [id |-> ps[k].id, l |-> ps[k].l, r |-> ps[k].r, st |-> ps[k].st, nom |-> ps[k].nom,
                                      nos |-> ps[k].nos, reqs |-> ps[k].reqs, pr |-> ps[k].pr]]
\* Restart of an agent that is still New (gathered and signalled, not started) leaves nothing of the previous generation
C06_NoResidueNew == (ev.ev = "Reset") => \A a \in Agents : ev.preResidue[a] = <<0, 0, 0, 0, 0>>
C06_SupersessionPreserves ==
  (ev.ev = "AddRemote" /\ \E r \in Rng(pre[ev.ag].remotes) : r.addr = ev.c.addr /\ r.typ = "prflx" /\ ev.c.typ # "prflx") =>
     /\ StripPr(cur[ev.ag].pairs) = StripPr(pre[ev.ag].pairs) /\ cur[ev.ag].sel = pre[ev.ag].sel
     /\ ~\E r \in Rng(cur[ev.ag].remotes) : r.addr = ev.c.addr /\ r.typ = "prflx"
\* ---------------------------------------------------------------- C04
SelRemote(o, a) == PairOf(o, a, o[a].sel).r
StateFor(a, c, silence) ==
  LET total == IF F = 0 THEN 0 ELSE F + DD[a]  disc == DD[a] # 0 /\ silence > DD[a]  fail == total # 0 /\ silence > total
  IN IF fail THEN (IF disc /\ c \notin {"Disconnected", "Failed"} THEN "Disconnected" ELSE "Failed")
     ELSE IF disc THEN "Disconnected" ELSE "Connected"
C04_TimingRule ==
  (ev.ev = "Tick" /\ pre[ev.ag].sel # 0 /\ pre[ev.ag].conn # "Failed") =>
     cur[ev.ag].conn = StateFor(ev.ag, pre[ev.ag].conn, cur.now - pre[ev.ag].rx[SelRemote(pre, ev.ag)])
\* an agent that never selects a pair fails once the initial checking deadline (D + F, F # 0) has passed,
\* and not before it has passed
C04_CheckingDeadline ==
  (ev.ev = "Tick" /\ pre[ev.ag].conn = "Checking" /\ pre[ev.ag].sel = 0 /\ chk[ev.ag] >= 0) =>
     LET a == ev.ag IN
     /\ (F # 0 /\ cur.now - chk[a] > DC[a] + F) => cur[a].conn = "Failed"
     /\ (F = 0 \/ cur.now - chk[a] <= DC[a] + F) => cur[a].conn # "Failed"
Legal(a, x, y) == \/ <<x, y>> \in {<<"New", "Checking">>, <<"Checking", "Connected">>, <<"Checking", "Failed">>,
                                <<"Connected", "Disconnected">>, <<"Disconnected", "Connected">>, <<"Disconnected", "Failed">>}
               \/ (<<x, y>> = <<"Connected", "Failed">> /\ DD[a] = 0)
               \/ y = "Closed"
\* F-C04 (known finding): a Failed agent that was given candidates again still processes inbound checks
\* and reports Connected when a nomination completes
KnownFC04(a) == <<pre[a].conn, cur[a].conn>> = <<"Failed", "Connected">> /\ ev.ev = "Deliver"
C04_LifecycleStrict ==
  \A a \in Agents : cur[a].conn # pre[a].conn =>
     \/ Legal(a, pre[a].conn, cur[a].conn)
     \/ (cur[a].conn = "Checking" /\ pre[a].conn \in {"Connected", "Disconnected", "Failed"} /\ ev.ev = "Restart" /\ ev.ag = a)
     \/ ev.ev = "Reset"
C04_Lifecycle == \A a \in Agents : (cur[a].conn # pre[a].conn /\ ~KnownFC04(a)) =>
     \/ Legal(a, pre[a].conn, cur[a].conn)
     \/ (cur[a].conn = "Checking" /\ pre[a].conn \in {"Connected", "Disconnected", "Failed"} /\ ev.ev = "Restart" /\ ev.ag = a)
     \/ ev.ev = "Reset"
C04_FC04Seen == \A a \in Agents : ~KnownFC04(a)   \* used with -continue to list the occurrences of the known finding
\* the states delivered to the callback are exactly the agent's transitions, in order, without repeats
C04_NotifiedIsActual ==
  \A a \in Agents : ev.ev # "Reset" =>
     LET cb == cur[a].cbConn IN
     /\ (cb = <<>>) <=> (cur[a].conn = pre[a].conn)
     /\ cb # <<>> => /\ cb[Len(cb)] = cur[a].conn /\ cb[1] # pre[a].conn
                     /\ \A k \in 1..(Len(cb) - 1) : cb[k] # cb[k + 1]
C04_SelWhileConnected == \A a \in Agents : cur[a].conn \in {"Connected", "Disconnected"} => cur[a].sel # 0
\* ... and the application is told Failed only then: its handler never finds a selected pair through the lock-free accessor
C04_ReleasedOnFailed == \A a \in Agents : /\ (cur[a].conn = "Failed" /\ pre[a].conn # "Failed") => Empty(cur, a)
                                           /\ ~cur[a].failedSawSel
\* ---------------------------------------------------------------- C20 (controlled side)
NomReq == IsDeliver /\ ev.m.kind = "req" /\ ReqAuthOK /\ SocketOpen /\ ev.m.rolea # pre[Rcv].role /\ pre[Rcv].role = "controlled"
C20_AcceptMonotone == \A a \in Agents :
   (cur[a].role = "controlled" /\ pre[a].role = "controlled" /\ ev.ev \notin {"Reset", "Restart"}) => cur[a].lastNom >= pre[a].lastNom
C20_StaleIgnored == (NomReq /\ ev.m.nom # 0 /\ pre[Rcv].lastNom # 0 /\ ev.m.nom <= pre[Rcv].lastNom) =>
                       (cur[Rcv].sel = pre[Rcv].sel /\ cur[Rcv].lastNom = pre[Rcv].lastNom)
C20_SwitchOnValid ==
  (NomReq /\ ev.m.nom # 0 /\ (pre[Rcv].lastNom = 0 \/ ev.m.nom > pre[Rcv].lastNom)) =>
     /\ cur[Rcv].lastNom = ev.m.nom
     /\ \A p \in Rng(pre[Rcv].pairs) : (p.l = Unwire(ev.m.dst) /\ p.r = ev.m.src /\ p.st = "S") => cur[Rcv].sel = p.id
\* once the pair of the highest accepted nomination becomes valid the controlled agent switches to it, whatever the priorities
C20_SwitchWhenValidated ==
  (IsDeliver /\ ev.m.kind = "succ" /\ SocketOpen /\ RespAuthOK /\ Matched /\ pre[Rcv].role = "controlled" /\ cur[Rcv].role = "controlled"
   /\ acc[Rcv].v # 0 /\ acc[Rcv].l = Unwire(ev.m.dst) /\ acc[Rcv].r = ev.m.src) =>
     \A p \in Rng(cur[Rcv].pairs) : \A qq \in Rng(pre[Rcv].pairs) :
        (p.id = qq.id /\ p.l = acc[Rcv].l /\ p.r = acc[Rcv].r /\ qq.st # "S" /\ p.st = "S" /\ qq.nos) => cur[Rcv].sel = p.id
\* the controlling side does not follow the success response of a nomination older than one it has already seen acknowledged
C20_ControllingKeepsNewest ==
  (IsDeliver /\ ev.m.kind = "succ" /\ SocketOpen /\ RespAuthOK /\ Matched /\ pre[Rcv].role = "controlling") =>
     \A x \in Rng(pre[Rcv].pend) : (x.tid = ev.m.tid /\ x.dst = ev.m.src /\ x.nom # 0 /\ x.nom < acked[Rcv]) => cur[Rcv].sel = pre[Rcv].sel
C20_QuiescentAgreement ==
  (ev.ev = "DrainEnd" /\ ~nomLost /\ cur["A"].sel # 0 /\ cur["B"].sel # 0 /\ InSync(cur) /\ iss.v # 0 /\ cur["A"].role = "controlling") =>
     (MirrorIn(cur) /\ SelKey(cur, "A") = <<iss.l, iss.r>>)
C20_ValueOnWire ==
  (ev.ev = "Renominate" /\ ev.err = "") =>
     Cardinality({x \in Emitted : x.kind = "req" /\ x.nom = ev.v /\ x.uc /\ x.dst = ev.r /\ Unwire(x.src) = ev.l}) = 1
C20_OnlyControllingEnabled ==
  (ev.ev = "RenominateBad") => (ev.err # "" /\ Emitted = {} /\ AgentView(cur, ev.ag) = AgentView(pre, ev.ag))
\* ---------------------------------------------------------------- C07
NewData == {x \in Rng(cur.dnet) : Count(cur.dnet, x) > Count(pre.dnet, x)}
ValidPairs(o, a) == {p \in Rng(o[a].pairs) : p.st = "S"}
BestValidSet(o, a) == {p \in ValidPairs(o, a) : \A qq \in ValidPairs(o, a) : ~PrLess(p.pr, qq.pr)}
WriteTargets(o, a) == IF o[a].sel # 0 THEN {PairOf(o, a, o[a].sel)} ELSE BestValidSet(o, a)
\* data leaves through the selected pair (before selection: a best validated pair; none: the write fails), unmodified, once
WriteRefused == ev.err # "" /\ ev.n = 0 /\ NewData = {}
WriteRouted == /\ ev.err = "" /\ ev.n = ev.len
               /\ Cardinality(NewData) = 1 /\ Len(cur.dnet) = Len(pre.dnet) + 1
               /\ \A x \in NewData : /\ x.pid = ev.pid /\ x.len = ev.len /\ x.intact /\ x.from = ev.ag
                                       /\ \E p \in WriteTargets(pre, ev.ag) : x.src = NatMap[p.l] /\ x.dst = p.r
C07_WriteRoute ==
  (ev.ev = "Write" /\ ~ev.stun /\ ~ev.cookie) => IF WriteTargets(pre, ev.ag) = {} THEN WriteRefused ELSE WriteRouted
\* a payload that is no STUN message by its first byte but carries the magic cookie at offset 4: whether it "parses as STUN" is the
\* library's call, but writer and reader must make the same call - it is either refused, or sent like any other payload (and then
\* C07_ReadOnlyKnown demands that the peer's reader gets it)
C07_StunShapedConsistent ==
  (ev.ev = "Write" /\ ev.cookie) => (WriteRefused \/ (WriteTargets(pre, ev.ag) # {} /\ WriteRouted))
C07_NoSTUNWrite == (ev.ev = "Write" /\ ev.stun) => (ev.err # "" /\ ev.n = 0 /\ NewData = {} /\ Emitted = {})
\* the reader gets exactly the non-STUN datagrams delivered from the address of a known remote candidate, once, unmodified
DataRcv == OwnerOfDst(ev.d.dst)
\* ... also when the reader falls behind: what it gets when it catches up are datagrams that arrived meanwhile, each once, intact, in
\* arrival order - all of them if they fit the agent's receive buffer (1 000 000 bytes, two bytes of bookkeeping per datagram)
RECURSIVE HeldBytes(_)
HeldBytes(q) == IF q = <<>> THEN 0 ELSE q[1][2] + 2 + HeldBytes(Tail(q))
RECURSIVE IsSubseq(_, _)     \* r (what was read) is q (what arrived) with some entries left out
IsSubseq(r, q) == IF r = <<>> THEN TRUE ELSE IF q = <<>> THEN FALSE
                  ELSE IF <<r[1].pid, r[1].len>> = q[1] THEN IsSubseq(Tail(r), Tail(q)) ELSE IsSubseq(r, Tail(q))
C07_ReadOnlyKnown ==
  \A a \in Agents :
     IF ev.ev = "DeliverData" /\ DataRcv = a /\ Unwire(ev.d.dst) \in Rng(pre[a].locals) /\ Known(pre, a, ev.d.src) /\ (~pre[a].paused \/ pgrace[a])
     THEN cur[a].rd = <<[pid |-> ev.d.pid, len |-> ev.d.len, intact |-> TRUE]>>
     ELSE IF ev.ev = "ResumeRead" /\ ev.ag = a
     THEN /\ \A k \in 1..Len(cur[a].rd) : cur[a].rd[k].intact
          /\ IF HeldBytes(pheld[a]) <= 1000000
             THEN Len(cur[a].rd) = Len(pheld[a]) /\ \A k \in 1..Len(pheld[a]) : <<cur[a].rd[k].pid, cur[a].rd[k].len>> = pheld[a][k]
             ELSE /\ HeldBytes([k \in 1..Len(cur[a].rd) |-> <<cur[a].rd[k].pid, cur[a].rd[k].len>>]) <= 1000000
                  /\ IsSubseq(cur[a].rd, pheld[a])
     ELSE cur[a].rd = <<>>
\* data from a known source refreshes that source's liveness and nothing else; data from elsewhere changes nothing
C07_DataInert ==
  (ev.ev \in {"DeliverData", "VanishData", "DropData", "InjectData", "Write"}) =>
     \A a \in Agents : /\ [AgentView(cur, a) EXCEPT !.rx = <<>>] = [AgentView(pre, a) EXCEPT !.rx = <<>>] /\ NoCallbacks(a)
                        /\ \A r \in DOMAIN cur[a].rx : (cur[a].rx[r] # pre[a].rx[r]) =>
                              (ev.ev = "DeliverData" /\ DataRcv = a /\ r = ev.d.src /\ Known(pre, a, r))
C07_ConnCounters == ~cut => \A a \in Agents : cur[a].bsent = cur[a].tally[2] /\ cur[a].brecv = cur[a].tally[4]
\* a Read into a buffer shorter than the datagram does not pass the cut datagram off as the datagram: it reports the short buffer
\* (and with nothing waiting it takes nothing)
C07_ShortReadReported == ev.ev = "ShortRead" => ev.res = (IF pheld[ev.ag] = <<>> THEN "empty" ELSE "short")
\* while one pair stays selected, its packet/byte counters advance exactly like the harness tallies
\* (while the reader lags the pair has counted what the agent accepted and the reader has not returned yet: judged when it has caught up)
C07_PairCounters ==
  \A a \in Agents : (cur[a].sel # 0 /\ SelKeyOf(cur, a) = base[a].key /\ ev.ev # "Reset" /\ ~cur[a].paused /\ ~cut) =>
     \A i \in 1..4 : cur[a].selCnt[i] - base[a].cnt[i] = cur[a].tally[i] - base[a].tally[i]
\* ---------------------------------------------------------------- reporting
\* Every violated predicate is printed with the trace line it was violated at; the invariant itself never
\* fails, so one TLC run lists all violations of a batch of traces (./check cuts the trace out and
\* matches known findings by the shape of the offending step).
P(n) == CASE n = "C01_Mirror" -> C01_Mirror []
        n = "C01_Converges" -> C01_Converges []
        n = "C01_NeverWithoutPath" -> C01_NeverWithoutPath []
        n = "C02_BadRequestInert" -> C02_BadRequestInert []
        n = "C02_BadResponseInert" -> C02_BadResponseInert []
        n = "C02_ErrorInert" -> C02_ErrorInert []
        n = "C02_NonBindingInert" -> C02_NonBindingInert []
        n = "C02_IndicationOnlyLiveness" -> C02_IndicationOnlyLiveness []
        n = "C02_UnmatchedResponse" -> C02_UnmatchedResponse []
        n = "C02_MatchedOnly" -> C02_MatchedOnly []
        n = "C02_StaleResponseInert" -> C02_StaleResponseInert []
        n = "C03_SelValidated" -> C03_SelValidated []
        n = "C03_LiteSelectsOnNomination" -> C03_LiteSelectsOnNomination []
        n = "C03_NoUCFromControlled" -> C03_NoUCFromControlled []
        n = "C03_LiteNeverRequests" -> C03_LiteNeverRequests []
        n = "C03_NoDowngrade" -> C03_NoDowngrade []
        n = "C06_IdAddresses" -> C06_IdAddresses [] n = "C03_SelectedIsValid" -> C03_SelectedIsValid []
        n = "C05_Rule" -> C05_Rule [] n = "C05_SwitchOnlyOnConflict" -> C05_SwitchOnlyOnConflict []
        n = "C05_OppositeAtEnd" -> C05_OppositeAtEnd []
        n = "C06_UniqueIds" -> C06_UniqueIds []
        n = "C06_NoDupPairs" -> C06_NoDupPairs []
        n = "C06_PairsFromCurrent" -> C06_PairsFromCurrent []
        n = "C06_SelListed" -> C06_SelListed []
        n = "C06_IdStable" -> C06_IdStable []
        n = "C06_RemotesDeduped" -> C06_RemotesDeduped []
        n = "C06_RemoteFilter" -> C06_RemoteFilter []
        n = "C06_NoResidue" -> C06_NoResidue []
        n = "C06_NoResidueNew" -> C06_NoResidueNew []
        n = "C06_SupersessionPreserves" -> C06_SupersessionPreserves []
        n = "C04_TimingRule" -> C04_TimingRule []
        n = "C04_CheckingDeadline" -> C04_CheckingDeadline []
        n = "C04_LifecycleStrict" -> C04_LifecycleStrict []
        n = "C04_Lifecycle" -> C04_Lifecycle []
        n = "C04_FC04Seen" -> C04_FC04Seen []
        n = "C04_NotifiedIsActual" -> C04_NotifiedIsActual []
        n = "C04_SelWhileConnected" -> C04_SelWhileConnected []
        n = "C04_ReleasedOnFailed" -> C04_ReleasedOnFailed []
        n = "C20_AcceptMonotone" -> C20_AcceptMonotone []
        n = "C20_StaleIgnored" -> C20_StaleIgnored []
        n = "C20_SwitchOnValid" -> C20_SwitchOnValid []
        n = "C20_SwitchWhenValidated" -> C20_SwitchWhenValidated []
        n = "C20_ControllingKeepsNewest" -> C20_ControllingKeepsNewest []
        n = "C20_QuiescentAgreement" -> C20_QuiescentAgreement []
        n = "C20_ValueOnWire" -> C20_ValueOnWire []
        n = "C20_OnlyControllingEnabled" -> C20_OnlyControllingEnabled []
        n = "C07_WriteRoute" -> C07_WriteRoute []
        n = "C07_StunShapedConsistent" -> C07_StunShapedConsistent []
        n = "C07_NoSTUNWrite" -> C07_NoSTUNWrite []
        n = "C07_ReadOnlyKnown" -> C07_ReadOnlyKnown []
        n = "C07_DataInert" -> C07_DataInert []
        n = "C07_ConnCounters" -> C07_ConnCounters []
        n = "C07_PairCounters" -> C07_PairCounters []
        n = "C07_ShortReadReported" -> C07_ShortReadReported
Report == \A n \in Check : P(n) \/ PrintT(<<"VIOL", n, l - 1>>)
AllPredicates == {"C01_Mirror", "C01_Converges", "C01_NeverWithoutPath", "C02_BadRequestInert", "C02_BadResponseInert", "C02_ErrorInert", "C02_NonBindingInert", "C02_IndicationOnlyLiveness", "C02_UnmatchedResponse", "C02_MatchedOnly", "C02_StaleResponseInert", "C03_SelValidated", "C03_LiteSelectsOnNomination", "C03_NoUCFromControlled", "C03_LiteNeverRequests", "C03_NoDowngrade", "C05_Rule", "C05_OppositeAtEnd", "C06_UniqueIds", "C06_NoDupPairs", "C06_PairsFromCurrent", "C06_SelListed", "C06_IdStable", "C06_RemotesDeduped", "C06_RemoteFilter", "C06_NoResidue", "C06_NoResidueNew", "C06_SupersessionPreserves", "C04_TimingRule", "C04_CheckingDeadline", "C04_LifecycleStrict", "C04_Lifecycle", "C04_FC04Seen", "C04_NotifiedIsActual", "C04_SelWhileConnected", "C04_ReleasedOnFailed", "C20_AcceptMonotone", "C20_StaleIgnored", "C20_SwitchOnValid", "C20_SwitchWhenValidated", "C20_ControllingKeepsNewest", "C20_QuiescentAgreement", "C20_ValueOnWire", "C20_OnlyControllingEnabled", "C07_WriteRoute", "C07_StunShapedConsistent", "C07_NoSTUNWrite", "C07_ReadOnlyKnown", "C07_DataInert", "C07_ConnCounters", "C07_PairCounters", "C07_ShortReadReported"}
Done == IF TLCGet("stats").diameter = Len(Tr) THEN TRUE
        ELSE Print(<<"MONITOR_STOPPED_AT", TLCGet("stats").diameter, Len(Tr)>>, FALSE)
====
