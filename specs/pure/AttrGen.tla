---- MODULE AttrGen ----
EXTENDS AttrCodec, Json, SequencesExt
CONSTANTS EncFile, DecFile, Extra32     \* Extra32: further 32-bit values (seeded random), 4 digits each
D(n, w) == Pad(FromNat(n), w)
V32 == {D(0, 4), D(1, 4), D(16777215, 4), D(16777216, 4), D(2147483647, 4), <<255, 255, 255, 255>>, <<0, 0, 0, 128>>} \cup {Extra32[k] : k \in 1..Len(Extra32)}
V64 == {D(0, 8), D(1, 8), <<255, 255, 255, 255, 0, 0, 0, 0>>, <<0, 0, 0, 0, 1, 0, 0, 0>>, <<255, 255, 255, 255, 255, 255, 255, 127>>,
        <<255, 255, 255, 255, 255, 255, 255, 255>>, <<1, 2, 3, 4, 5, 6, 7, 8>>} \cup {v \o Rev(v) : v \in V32}
Pattern(n) == [k \in 1..n |-> (k * 37 + 11) % 256]
Vals(a) == CASE a = "priority" -> V32 [] a \in {"controlling", "controlled"} -> V64 [] a = "nomination" -> V32
             [] a = "ack" -> {<<>>, <<D(1, 4)>>, <<D(1, 4), D(2, 4), D(3, 4), D(4, 4)>>, <<<<255, 255, 255, 255>>, D(0, 4)>>,
                              <<D(1, 4), D(2, 4), D(3, 4), D(4, 4), D(5, 4)>>}
             [] a = "dtls" -> {<<>>, <<22, 254, 253>>, Pattern(100)}
             [] a = "usecandidate" -> {<<>>}
AttrNames == {"priority", "controlling", "controlled", "nomination", "ack", "dtls", "usecandidate"}
EncCase(a, v) == [attr |-> a, val |-> v, indomain |-> InValueDomain(a, v), bytes |-> IF InValueDomain(a, v) THEN Encode(a, v) ELSE <<>>]
Sizes == {0, 1, 3, 4, 5, 7, 8, 9, 12, 15, 16, 17, 20}
DecCase(a, n) == [attr |-> a, bytes |-> Pattern(n), ok |-> SizeOK(a, n), val |-> IF SizeOK(a, n) THEN Decode(a, Pattern(n)) ELSE <<>>]
AttrSeq == <<"priority", "controlling", "controlled", "nomination", "ack", "dtls", "usecandidate">>
\* per-attribute sequences are concatenated (values of different attributes have different shapes and are never compared)
EncSeq == Concat([k \in 1..Len(AttrSeq) |-> SetToSeq({EncCase(AttrSeq[k], v) : v \in Vals(AttrSeq[k])})])
DecSeq == Concat([k \in 1..(Len(AttrSeq) - 1) |-> SetToSeq({DecCase(AttrSeq[k], n) : n \in Sizes})])
\* law on the specification: decoding inverts encoding on the value domain, and every encoding has a legal size
RoundTrip(c) == c.indomain => (SizeOK(c.attr, Len(c.bytes)) /\ (c.attr # "usecandidate" => SameVal(c.attr, Decode(c.attr, c.bytes), c.val)))
ASSUME PrintT(<<"enc", Len(EncSeq), "dec", Len(DecSeq)>>) /\ ndJsonSerialize(EncFile, EncSeq) /\ ndJsonSerialize(DecFile, DecSeq)
VARIABLE i
Init == i \in 1..Len(EncSeq)
Next == UNCHANGED i
LawsHold == RoundTrip(EncSeq[i])
====
