---- MODULE PriorityObj ----
(* C17 over the life of ONE candidate object: the priority is a function of the    *)
(* object's current component and of the configuration currently in effect (the    *)
(* agent it is attached to), not of the moment it was first asked for. A small      *)
(* state machine: construct, then any sequence of SetComponent / attach-to-agent    *)
(* steps; after every step the getters are read. TLC enumerates all sequences of    *)
(* at most MaxOps steps per candidate shape, checks the range laws on the expected  *)
(* values and writes the runs for the driver.                                        *)
EXTENDS Priority, FiniteSets, Json, SequencesExt
CONSTANTS CompSet,     \* component ids SetComponent may set
          OffSet,      \* TCP priority offsets of the agents a candidate may be attached to
          MaxOps, RunFile
Rng(q) == {q[k] : k \in 1..Len(q)}
Protos(t) == IF t = "relay" THEN {"udp", "dtls", "tcp", "tls"} ELSE {""}
Shape(t, n, tt, p) == [typ |-> t, net |-> n, tt |-> tt, proto |-> p]
Shapes == {Shape(t, "udp", "", p) : t \in Types, p \in UNION {Protos(t2) : t2 \in Types}}
          \cup {Shape(t, "tcp", tt, p) : t \in Types, tt \in {"active", "passive", "so"}, p \in UNION {Protos(t2) : t2 \in Types}}
ShapeSeq == SetToSeq({x \in Shapes : x.proto \in Protos(x.typ)})
Ops == [op : {"comp"}, v : CompSet] \cup [op : {"attach"}, v : OffSet]
\* ---- the object
VARIABLES shape, comp, att, off, ops
vars == <<shape, comp, att, off, ops>>
Init == shape \in Rng(ShapeSeq) /\ comp = 1 /\ att = FALSE /\ off = 0 /\ ops = <<>>
SetComponent(c) == comp' = c /\ ops' = Append(ops, [op |-> "comp", v |-> c]) /\ UNCHANGED <<shape, att, off>>
\* a candidate is attached to its agent once (start); before that no configuration applies to it
Attach(o) == ~att /\ att' = TRUE /\ off' = o /\ ops' = Append(ops, [op |-> "attach", v |-> o]) /\ UNCHANGED <<shape, comp>>
Next == \/ Len(ops) < MaxOps /\ ((\E c \in CompSet : SetComponent(c)) \/ (\E o \in OffSet : Attach(o)))
        \/ Len(ops) = MaxOps /\ UNCHANGED vars
\* what the getters must say in a state: the type preference is pinned by the property only once a configuration applies (attached)
\* and while the reduction stays in range; the formula over the values read is demanded always (checked by the monitor)
ExpIn(x, c, a, o) == LET ex == a /\ TypePrefExact(x.typ, x.net, o)
                         tp == IF ex THEN TypePref(x.typ, x.net, o) ELSE 0
                         lp == LocalPref(x.typ, x.net, x.tt, x.proto)
                     IN [comp |-> c, att |-> a, exact |-> ex, tp |-> tp, lp |-> lp, prio |-> IF ex THEN CandPrio(tp, lp, c) ELSE 0]
RangeOK == LET e == ExpIn(shape, comp, att, off) IN
             e.exact => (e.tp \in 0..126 /\ e.prio \in 0..MaxPrio /\ (comp \in 1..255 => e.prio >= 1))
\* ---- the runs: every sequence of at most MaxOps steps with at most one attach, with the expected reading after each prefix
OpSeqs == {s \in UNION {[1..n -> Ops] : n \in 0..MaxOps} : Cardinality({k \in DOMAIN s : s[k].op = "attach"}) <= 1}
CompAt(s, k) == LET ks == {j \in 1..k : s[j].op = "comp"} IN IF ks = {} THEN 1 ELSE s[CHOOSE j \in ks : \A i \in ks : i <= j].v
AttAt(s, k) == \E j \in 1..k : s[j].op = "attach"
OffAt(s, k) == IF AttAt(s, k) THEN s[CHOOSE j \in 1..k : s[j].op = "attach"].v ELSE 0
Run(i, s) == [shape |-> ShapeSeq[i], ops |-> s, exp |-> [k \in 1..(Len(s) + 1) |-> ExpIn(ShapeSeq[i], CompAt(s, k - 1), AttAt(s, k - 1), OffAt(s, k - 1))]]
ASSUME LET r == SetToSeq({Run(i, s) : i \in 1..Len(ShapeSeq), s \in OpSeqs}) IN PrintT(<<"runs", Len(r)>>) /\ ndJsonSerialize(RunFile, r)
====
