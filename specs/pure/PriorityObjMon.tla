---- MODULE PriorityObjMon ----
(* Verdict for the stateful part of C17: what TypePreference / LocalPreference /   *)
(* Component / Priority of one real candidate said after every step of a run of     *)
(* PriorityObj, against the expected readings.                                       *)
EXTENDS Priority, Json
CONSTANTS RunFile, RunRealFile, Check
Runs == ndJsonDeserialize(RunFile)
Real == ndJsonDeserialize(RunRealFile)
VARIABLE s
Init == s \in 1..Len(Runs)
Next == UNCHANGED s
On(n) == n \in Check
Viol(name, k, a, b, c) == PrintT(<<"VIOL", name, "run", s, k, a, b, c>>)
Last(r, k) == IF k = 1 THEN "construct" ELSE r.ops[k - 1].op
Report == LET r == Runs[s] g == Real[s] IN \A k \in 1..Len(r.exp) : LET e == r.exp[k] v == g.reads[k] prio == <<v[3], v[4], v[5], v[6]>> IN
   \* the component the object reports is the one last set
   /\ On("ComponentFollows") => (v[7] = e.comp \/ Viol("ComponentFollows", k, r.shape.typ, r.shape.net, Last(r, k)))
   \* the priority equals the formula over the object's own current type preference, local preference and component
   /\ On("PriorityFollowsState") => ((v[1] <= 126 /\ prio = Pad(FromNat(CandPrio(IF v[1] <= 126 THEN v[1] ELSE 0, v[2], e.comp)), 4))
                                       \/ Viol("PriorityFollowsState", k, r.shape.typ, r.shape.net, Last(r, k)))
   /\ (On("TypePrefExact") /\ e.exact) => (v[1] = e.tp \/ Viol("TypePrefExact", k, r.shape.typ, r.shape.net, Last(r, k)))
   /\ On("LocalPrefAgrees") => (v[2] = e.lp \/ Viol("LocalPrefAgrees", k, r.shape.typ, r.shape.net, Last(r, k)))
   /\ (On("PriorityAgrees") /\ e.exact) => (prio = Pad(FromNat(e.prio), 4) \/ Viol("PriorityAgrees", k, r.shape.typ, r.shape.net, Last(r, k)))
====
