CONSTANTS ComboFile = "combos.ndjson" ExpFile = "pexp.ndjson" RealFile = "preal.ndjson" PairFile = "pairs.ndjson" PairRealFile = "pairsreal.ndjson"
 FoundFile = "found.ndjson" FoundRealFile = "foundreal.ndjson"
 Check = {"TypePrefRange", "TypePrefExact", "LocalPrefAgrees", "PriorityAgrees", "PriorityRange", "PairAgrees", "PairMirror", "FoundationFunctional", "FoundationDistinct"}
INIT Init
NEXT Next
INVARIANT Report
