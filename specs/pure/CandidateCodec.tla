---- MODULE CandidateCodec ----
(* C16: the abstract domain of candidates constructible through the public        *)
(* constructors, the equality relations, and the candidate-attribute grammar of    *)
(* RFC 5245 15.1 at token level (accept/reject and the fields a line denotes).      *)
EXTENDS Naturals, Sequences, FiniteSets, TLC
Rng(s) == {s[k] : k \in 1..Len(s)}
CTypes == {"host", "srflx", "prflx", "relay"}
Nets == {"udp", "tcp"}
\* "TCP types on host candidates"
TcpTypes(t, n) == IF t = "host" /\ n = "tcp" THEN {"active", "passive", "so"} ELSE {""}
\* IPv4 / IPv6 / IPv4-mapped / mDNS name (host candidates only; an unresolved mDNS candidate is UDP)
Addrs(t, n) == {"10.0.0.1", "fd00::1", "::ffff:10.0.0.2"} \cup (IF t = "host" /\ n = "udp" THEN {"abcd.local"} ELSE {})
\* related-address forms: none, normal, the all-zero form, an address with port 0
NoRel == [addr |-> "", port |-> 0]
Rels(t) == IF t = "host" THEN {NoRel}
           ELSE {[addr |-> "192.168.0.9", port |-> 4000], [addr |-> "0.0.0.0", port |-> 0], [addr |-> "192.168.0.9", port |-> 0], NoRel}
\* extension attributes: byte-strings without spaces. "<eacute>" stands for U+00E9, "<euro>" for U+20AC (three UTF-8 bytes, each a
\* legal byte-string byte), "<ff>" for the single byte 0xFF; the driver substitutes the real bytes.
E(k, v) == [k |-> k, v |-> v]
ExtPool == <<E("generation", "0"), E("network-cost", "10"), E("ufrag", "aB+/"), E("emptyval", ""), E("na<eacute>ve", "<eacute>"),
             E("cur", "<euro>"), E("raw", "<ff>"),
             \* values and keys that END in a byte sequence Unicode classes as white space but the grammar does not (only SP separates
             \* tokens): no-break space U+00A0, horizontal tab, next line U+0085 - as the last token of the line they must survive
             E("tail", "x<nbsp>"), E("tab", "y<ht>"), E("kend<nel>", ""),
             \* names that are "tcptype" only when case is ignored: extension names are case-sensitive, these are ordinary extensions
             \* (with a value that is a TCP type, and with one that is not)
             E("TCPType", "passive"), E("TcpType", "v1")>>
\* lists of length <= n; two-element lists (distinct keys) over the first pp pool entries
ExtLists(n, pp) == {<<>>} \cup {<<ExtPool[i]>> : i \in 1..Len(ExtPool)}
                   \cup (IF n >= 2 THEN {<<ExtPool[i], ExtPool[j]>> : i, j \in 1..pp} \ {<<ExtPool[i], ExtPool[i]>> : i \in 1..pp} ELSE {})
\* extension lists with repeated keys or repeated (key, value) entries: the grammar does not make extension names unique and the parser keeps
\* every occurrence (AddExtension replaces, so these candidates only come into being by parsing); all lists of length 2 and 3 over DupPool
DupPool == <<E("generation", "0"), E("generation", "1"), E("network-cost", "10")>>
DupExtLists == {<<DupPool[i], DupPool[j]>> : i, j \in 1..3} \cup {<<DupPool[i], DupPool[j], DupPool[k]>> : i, j, k \in 1..3}
Cand(t, nw, tt, a, c, r, e) == [typ |-> t, net |-> nw, tcptype |-> tt, addr |-> a, port |-> 5000, comp |-> c, rel |-> r, ext |-> e]
\* the domain, parameterised by the addresses, components and extension lists to combine
DomainOver(AddrSet, CompSet, ExtSet) ==
  UNION {{Cand(t, nw, tt, a, c, r, e) : tt \in TcpTypes(t, nw), a \in Addrs(t, nw) \cap AddrSet, c \in CompSet, r \in Rels(t), e \in ExtSet} : t \in CTypes, nw \in Nets}
AllAddrs == {"10.0.0.1", "fd00::1", "::ffff:10.0.0.2", "abcd.local"}
Domain(n, pp) == DomainOver(AllAddrs, {1, 2}, ExtLists(n, pp)) \cup DomainOver({"10.0.0.1"}, {1}, DupExtLists)

\* ---- equality relations ("Equal": same transport address, type and related address; "DeepEqual": also the same extensions)
SameTransport(a, b) == a.net = b.net /\ a.addr = b.addr /\ a.port = b.port /\ a.tcptype = b.tcptype
EqualSpec(a, b) == SameTransport(a, b) /\ a.typ = b.typ /\ a.rel = b.rel
Count(s, x) == Cardinality({k \in 1..Len(s) : s[k] = x})
SameExt(s, t) == Len(s) = Len(t) /\ \A x \in Rng(s) \cup Rng(t) : Count(s, x) = Count(t, x)      \* the weaker reading: order of extensions is irrelevant
DeepEqualSpec(a, b) == EqualSpec(a, b) /\ SameExt(a.ext, b.ext)

\* ---- candidate-attribute lines at token level
\* a line is a sequence of fields; every field is chosen from a pool of tokens tagged valid / invalid (grammar + value range)
T(s, ok) == [s |-> s, ok |-> ok]
F32 == "abcdefghijklmnopqrstuvwxyzABCDEF"
FieldNames == <<"foundation", "component", "transport", "priority", "address", "port", "typkw", "type", "rel", "ext">>
Pools == [foundation |-> <<T("4234997325", TRUE), T("aZ09+/", TRUE), T(F32, TRUE), T(F32 \o "G", FALSE), T("f*o", FALSE), T("f_o", FALSE)>>,
          component  |-> <<T("1", TRUE), T("2", TRUE), T("256", TRUE), T("x", FALSE), T("123456", FALSE), T("-1", FALSE)>>,
          transport  |-> <<T("udp", TRUE), T("UDP", TRUE), T("tcp", TRUE), T("TCP", TRUE), T("", FALSE)>>,
          priority   |-> <<T("2130706431", TRUE), T("1", TRUE), T("4294967295", TRUE), T("12345678901", FALSE), T("1x", FALSE), T("-5", FALSE)>>,
          address    |-> <<T("10.0.0.1", TRUE), T("fd00::1", TRUE), T("::ffff:10.0.0.2", TRUE), T("999.1.1.1", FALSE), T("not_an_ip", FALSE)>>,
          port       |-> <<T("5000", TRUE), T("1", TRUE), T("65535", TRUE), T("65536", FALSE), T("x", FALSE), T("123456", FALSE)>>,
          typkw      |-> <<T("typ", TRUE), T("type", FALSE), T("TYP", FALSE)>>,
          type       |-> <<T("srflx", TRUE), T("host", TRUE), T("prflx", TRUE), T("relay", TRUE), T("Host", FALSE), T("xyz", FALSE)>>,
          rel        |-> <<T("raddr 192.168.0.9 rport 4000", TRUE), T("", TRUE), T("raddr 192.168.0.9 rport 0", TRUE), T("raddr 192.168.0.9", FALSE),
                           T("raddr 192.168.0.9 rport", FALSE), T("raddr 192.168.0.9 rport x", FALSE), T("raddr 192.168.0.9 rport 65536", FALSE)>>,
          ext        |-> <<T("", TRUE), T("generation 0", TRUE), T("generation 0 network-cost 10", TRUE), T("tcptype active", TRUE),
                           T("tcptype bogus", FALSE), T("generation 0 ", FALSE), T(" generation 0", FALSE)>>]
\* what the tokens of an accepted line denote
RelOf(s) == CASE s = "" -> NoRel [] s = "raddr 192.168.0.9 rport 4000" -> [addr |-> "192.168.0.9", port |-> 4000]
              [] s = "raddr 192.168.0.9 rport 0" -> [addr |-> "192.168.0.9", port |-> 0] [] OTHER -> NoRel
ExtOf(s) == CASE s = "generation 0" -> <<E("generation", "0")>> [] s = "generation 0 network-cost 10" -> <<E("generation", "0"), E("network-cost", "10")>>
              [] OTHER -> <<>>
Lower(s) == CASE s = "UDP" -> "udp" [] s = "TCP" -> "tcp" [] OTHER -> s
\* choice == [field name -> index into its pool]
LineValid(ch) == \A f \in Rng(FieldNames) : Pools[f][ch[f]].ok
Tok(ch, f) == Pools[f][ch[f]].s
LineTokens(ch) == [k \in 1..Len(FieldNames) |-> Tok(ch, FieldNames[k])]
Denotes(ch) == [typ |-> Tok(ch, "type"), net |-> Lower(Tok(ch, "transport")), addr |-> Tok(ch, "address"), port |-> Tok(ch, "port"),
                comp |-> Tok(ch, "component"), prio |-> Tok(ch, "priority"), foundation |-> Tok(ch, "foundation"),
                tcptype |-> IF Tok(ch, "ext") = "tcptype active" THEN "active" ELSE "",
                \* a host candidate has no related address; the grammar still allows the tokens
                rel |-> IF Tok(ch, "type") = "host" THEN NoRel ELSE RelOf(Tok(ch, "rel")), ext |-> ExtOf(Tok(ch, "ext"))]
====
