---- MODULE AttrMon ----
(* Verdict for the attribute part of C16: bytes produced and values decoded by the *)
(* real AddTo/GetFrom against AttrCodec.                                            *)
EXTENDS AttrCodec, Json
CONSTANTS EncFile, DecFile, EncRealFile, DecRealFile, Check
E == ndJsonDeserialize(EncFile)
ER == ndJsonDeserialize(EncRealFile)
Dc == ndJsonDeserialize(DecFile)
DR == ndJsonDeserialize(DecRealFile)
VARIABLE s
Init == s \in ([k : {"enc"}, v : 1..Len(E)] \cup [k : {"dec"}, v : 1..Len(Dc)])
Next == UNCHANGED s
Holds(name, cond, a, b) == (name \in Check /\ ~cond) => PrintT(<<"VIOL", name, s.k, s.v, a, b>>)
EncOK(i) == LET c == E[i] r == ER[i] IN
  /\ Holds("NoPanic", ~r.panic, c.attr, "-")
  /\ ~r.panic =>
     IF c.indomain THEN
       /\ Holds("EncodingAgrees", ~r.encErr /\ r.bytes = c.bytes, c.attr, "-")
       /\ ~r.encErr => /\ Holds("DecodeOfEncode", ~r.decErr /\ SameVal(c.attr, r.dec, c.val), c.attr, "-")
                       /\ c.attr \in {"controlling", "controlled"} => Holds("DecodeOfEncode", r.viaOK, c.attr, "via-AttrControl")
                       /\ c.attr = "usecandidate" => Holds("DecodeOfEncode", r.isSet, c.attr, "IsSet")
     ELSE \* outside the value domain: an encoder that refuses is fine; one that encodes must not be judged (24-bit nomination in a uint32)
       c.attr = "ack" => Holds("EncodeRejects", r.encErr, c.attr, "more-than-four")
DecOK(i) == LET c == Dc[i] r == DR[i] n == Len(c.bytes) IN
  /\ Holds("NoPanic", ~r.panic, c.attr, "-")
  /\ ~r.panic =>
     IF c.ok THEN Holds("AcceptsRightSize", ~r.decErr /\ SameVal(c.attr, r.dec, c.val), c.attr, "-")
     ELSE Holds("RejectsWrongSize", r.decErr, c.attr, IF n < 4 THEN "shorter" ELSE "longer")
Report == IF s.k = "enc" THEN EncOK(s.v) ELSE DecOK(s.v)
====
