CONSTANTS EncFile = "aenc.ndjson" DecFile = "adec.ndjson" EncRealFile = "aencreal.ndjson" DecRealFile = "adecreal.ndjson"
 Check = {"NoPanic", "EncodingAgrees", "DecodeOfEncode", "EncodeRejects", "AcceptsRightSize", "RejectsWrongSize"}
INIT Init
NEXT Next
INVARIANT Report
