---- MODULE RewriteGen ----
(* Enumerates rule lists over a representative pool x all lookup keys, checks   *)
(* laws of the documented semantics on the specification itself, and writes     *)
(* the expected outcome of every case (one ndjson line per rule list).           *)
EXTENDS Rewrite, TLC, Json, SequencesExt
CONSTANTS MaxLen,      \* all lists over Pool of length 0..MaxLen are enumerated
          Extra,       \* further lists, as sequences of Pool indices (seeded random, longer)
          OutFile, KeyFile

R(ext, local, iface, cidr, typ, mode, nets) == [ext |-> ext, local |-> local, iface |-> iface, cidr |-> cidr, typ |-> typ, mode |-> mode, nets |-> nets]
Pool == << R(<<"1.1.1.1">>, "", "", "", "host", "replace", <<>>),                  \*  1 global v4
           R(<<"2.2.2.2">>, "", "", "10.0.0.0/8", "host", "replace", <<>>),        \*  2 CIDR-only
           R(<<"1.1.1.1">>, "", "e0", "", "host", "append", <<>>),                \*  3 iface-only
           R(<<"2.2.2.2">>, "", "e0", "10.0.0.0/8", "", "", <<>>),                \*  4 iface+CIDR, default type and mode
           R(<<"2.2.2.2">>, "10.0.0.5", "", "", "host", "replace", <<>>),         \*  5 explicit local
           R(<<"2001::1">>, "10.0.0.5", "", "", "host", "append", <<>>),          \*  6 explicit local, cross family
           R(<<>>, "", "", "", "host", "replace", <<>>),                          \*  7 global drop
           R(<<>>, "", "e1", "", "host", "append", <<>>),                         \*  8 iface no-op
           R(<<"1.1.1.1", "2001::1">>, "", "", "", "host", "replace", <<>>),      \*  9 dual-family global
           R(<<"2001::2">>, "", "", "", "host", "replace", <<"udp6", "tcp6">>),   \* 10 v6-only network restriction
           R(<<"1.1.1.1">>, "", "", "", "host", "replace", <<"udp6">>),           \* 11 v4 external restricted to v6 networks: applies to nothing
           R(<<"2001::1">>, "", "", "fd00::/8", "host", "append", <<>>),          \* 12 v6 CIDR
           R(<<"2.2.2.2">>, "", "", "", "srflx", "", <<>>),                       \* 13 srflx global, default mode (append)
           R(<<"1.1.1.1">>, "10.0.0.5", "e0", "10.0.0.0/8", "relay", "replace", <<>>), \* 14 relay, local pinned inside iface+CIDR scope
           R(<<"2.2.2.2">>, "", "", "fd00::/8", "host", "replace", <<>>),         \* 15 v4 external scoped to a v6 CIDR (family implied by CIDR)
           R(<<>>, "192.168.1.5", "", "", "host", "replace", <<"udp4">>),         \* 16 explicit local drop
           \* a network restriction is about the family of the local scope (Local / CIDR), not of the external address:
           R(<<"2001::1">>, "10.0.0.5", "", "", "host", "replace", <<"udp4">>),   \* 17 explicit v4 local, v6 external, v4 networks: applies
           R(<<"2001::2">>, "10.0.0.5", "", "", "host", "replace", <<"udp6">>),   \* 18 ... v6 networks: applies to nothing
           R(<<"2.2.2.2">>, "", "", "fd00::/8", "host", "replace", <<"udp6">>),   \* 19 v4 external scoped to a v6 CIDR, v6 networks: applies
           R(<<"1.1.1.1">>, "", "", "fd00::/8", "host", "replace", <<"tcp4">>),   \* 20 ... v4 networks: applies to nothing
           R(<<"2.2.2.2">>, "10.0.0.5", "e0", "", "host", "replace", <<>>) >>      \* 21 explicit local restricted to an interface: looked up from elsewhere a later pin (5, 6) decides
\* rules that must be refused at construction
Bad == << R(<<"bad">>, "", "", "", "host", "replace", <<>>),
          R(<<"1.1.1.1/24">>, "", "", "", "host", "replace", <<>>),
          R(<<"1.1.1.1">>, "bad", "", "", "host", "replace", <<>>),
          R(<<"1.1.1.1">>, "", "", "10.0.0.0/33", "host", "replace", <<>>),
          R(<<"1.1.1.1">>, "192.168.1.5", "", "10.0.0.0/8", "host", "replace", <<>>),   \* CIDR/Local mismatch
          R(<<"1.1.1.1">>, "10.0.0.5", "", "fd00::/8", "host", "replace", <<>>),        \* CIDR/Local mismatch across families
          R(<<"1.1.1.1">>, "", "", "", "prflx", "append", <<>>) >>                      \* unsupported type
N == Len(Pool)
RECURSIVE Tuples(_)
Tuples(n) == IF n = 0 THEN {<<>>} ELSE {Append(t, i) : t \in Tuples(n - 1), i \in 1..N}
IdxLists == UNION {Tuples(n) : n \in 0..MaxLen} \cup Rng(Extra)
ListOf(t) == [k \in 1..Len(t) |-> Pool[t[k]]]
\* invalid lists: a bad rule alone, before and after a good one
BadLists == {<<Bad[b]>> : b \in 1..Len(Bad)} \cup {<<Bad[b], Pool[1]>> : b \in 1..Len(Bad)} \cup {<<Pool[5], Bad[b]>> : b \in 1..Len(Bad)}

Types == {"host", "srflx", "relay"}
Ifaces == {"", "e0", "e1"}
\* a lookup key names a local address; how the caller spells it (canonical text, or another text form of the same address:
\* IPv4-mapped for IPv4, upper-case uncompressed for IPv6) is not part of the documented semantics - the expected outcome
\* below does not look at form
KeySeq == SetToSeq({[typ |-> t, ip |-> ip, iface |-> i, form |-> f] : t \in Types, ip \in Locals, i \in Ifaces, f \in {"canon", "alt"}})
RelayAddr == "198.51.100.77"     \* what a relay candidate carries before rewriting (its related address is the lookup key)
Outcome(rs, k) == LET res == Lookup(rs, k.typ, k.ip, k.iface) IN
                  [res |-> res, winner |-> Winner(rs, k.typ, k.ip, k.iface),
                   apply |-> Apply(res, IF k.typ = "relay" THEN RelayAddr ELSE k.ip)]
Case(rs) == IF Valid(rs) THEN [kind |-> "rules", rules |-> rs, valid |-> TRUE, out |-> [j \in 1..Len(KeySeq) |-> Outcome(rs, KeySeq[j])]]
            ELSE [kind |-> "rules", rules |-> rs, valid |-> FALSE, out |-> <<>>]

\* legacy NAT1To1IPs lists
L(e, l, p) == [ext |-> e, local |-> l, parts |-> p]
LPool == << L("1.1.1.1", "", 1), L("2.2.2.2", "", 1), L("2001::1", "", 1), L("2.2.2.2", "10.0.0.5", 2), L("2001::2", "10.0.0.5", 2),
            L("1.1.1.1", "fd00::5", 2), L("bad", "", 1), L("1.1.1.1", "bad", 2), L("1.1.1.1", "10.0.0.5", 3) >>
LLists == {<<>>} \cup {<<LPool[i]>> : i \in 1..Len(LPool)} \cup {<<LPool[i], LPool[j]>> : i, j \in 1..Len(LPool)}
LCase(es, typ) == IF LegacyValid(es) /\ Valid(LegacyRules(es, typ))
                  THEN [kind |-> "legacy", entries |-> es, typ |-> typ, valid |-> TRUE,
                        out |-> [j \in 1..Len(KeySeq) |-> Outcome(LegacyRules(es, typ), KeySeq[j])]]
                  ELSE [kind |-> "legacy", entries |-> es, typ |-> typ, valid |-> FALSE, out |-> <<>>]

CaseSet == {Case(ListOf(t)) : t \in IdxLists} \cup {Case(rs) : rs \in BadLists}
           \cup {LCase(es, typ) : es \in LLists, typ \in {"host", "srflx", "prflx"}}

\* ---- laws of the documented semantics, checked on every enumerated case
NoCrossFamily(c) ==        \* "IPv4 and IPv6 mappings never cross families unless pinned by Local" (or scoped by a CIDR, per the field doc)
  \A j \in 1..Len(c.out) : LET o == c.out[j] k == KeySeq[j] IN
     o.res.matched => \A e \in Rng(o.res.ext) : Fam[e] = Fam[k.ip] \/ c.rules[o.winner].local = k.ip \/ c.rules[o.winner].cidr # ""
ExplicitWins(c) ==
  \A j \in 1..Len(c.out) : LET o == c.out[j] k == KeySeq[j] IN
     (\E i \in 1..Len(c.rules) : TypOf(c.rules[i]) = k.typ /\ ScopeOK(c.rules[i], k.ip, k.iface) /\ ExplicitFor(c.rules[i], k.ip))
        => o.winner # 0 /\ c.rules[o.winner].local = k.ip
MostSpecific(c) ==
  \A j \in 1..Len(c.out) : LET o == c.out[j] k == KeySeq[j] IN
     (o.winner # 0 /\ c.rules[o.winner].local = "") =>
        \A i \in 1..Len(c.rules) : (TypOf(c.rules[i]) = k.typ /\ ScopeOK(c.rules[i], k.ip, k.iface) /\ CatchFor(c.rules[i], Fam[k.ip]))
           => Specificity(c.rules[i]) < Specificity(c.rules[o.winner]) \/ (Specificity(c.rules[i]) = Specificity(c.rules[o.winner]) /\ o.winner <= i)
TypeRespected(c) == \A j \in 1..Len(c.out) : c.out[j].winner # 0 => TypOf(c.rules[c.out[j].winner]) = KeySeq[j].typ
ApplyLaw(c) == \A j \in 1..Len(c.out) : LET o == c.out[j] IN
     /\ (o.res.matched /\ o.res.mode = "replace" /\ o.res.ext = <<>>) => ~o.apply.keep
     /\ (o.res.matched /\ o.res.mode = "append" /\ o.res.ext = <<>>) => o.apply.keep /\ Len(o.apply.addrs) = 1
     /\ ~o.res.matched => o.apply.keep /\ Len(o.apply.addrs) = 1
Laws(c) == (c.kind = "rules" /\ c.valid) => NoCrossFamily(c) /\ ExplicitWins(c) /\ MostSpecific(c) /\ TypeRespected(c) /\ ApplyLaw(c)

ASSUME ndJsonSerialize(KeyFile, KeySeq)
ASSUME LET s == SetToSeq(CaseSet) IN PrintT(<<"lists", Len(s), "keys", Len(KeySeq)>>) /\ ndJsonSerialize(OutFile, s)
\* every case is a state, so that TLC checks the laws case by case (and in parallel)
VARIABLE c
Init == c \in CaseSet
Next == UNCHANGED c
LawsHold == Laws(c)
====
