---- MODULE Rewrite ----
(* Address rewrite rules (C19): the DOCUMENTED semantics as functions.          *)
(* Sources: property C19, the doc comments of AddressRewriteRule (field by      *)
(* field) and of WithAddressRewriteRules (evaluation order), and of             *)
(* AgentConfig.NAT1To1IPs for the legacy form. Nothing here is copied from       *)
(* external_ip_mapper.go.                                                        *)
EXTENDS Naturals, Sequences, FiniteSets, TLC

\* ---- a small universe of address strings ("bad*" are not IP addresses)
Fam == "10.0.0.5" :> "v4" @@ "192.168.1.5" :> "v4" @@ "fd00::5" :> "v6" @@
       "1.1.1.1" :> "v4" @@ "2.2.2.2" :> "v4" @@ "2001::1" :> "v6" @@ "2001::2" :> "v6"
IsIP(s) == s \in DOMAIN Fam
Locals == {"10.0.0.5", "192.168.1.5", "fd00::5"}
CidrFam == "10.0.0.0/8" :> "v4" @@ "fd00::/8" :> "v6"
IsCidr(c) == c \in DOMAIN CidrFam
InCidr(ip, c) == (c = "10.0.0.0/8" /\ ip = "10.0.0.5") \/ (c = "fd00::/8" /\ ip = "fd00::5")
NetFam == "udp4" :> "v4" @@ "tcp4" :> "v4" @@ "udp6" :> "v6" @@ "tcp6" :> "v6"
Rng(s) == {s[k] : k \in 1..Len(s)}

\* rule == [ext : Seq(string), local, iface, cidr : string ("" = unset), typ : "" | "host" | "srflx" | "relay" | "prflx",
\*          mode : "" | "replace" | "append", nets : Seq(network type), empty = all]
TypOf(r) == IF r.typ = "" THEN "host" ELSE r.typ                 \* "Defaults to host when unspecified"
ModeOf(r) == IF r.mode # "" THEN r.mode                           \* "If Mode is zero, the default is host -> replace, srflx/relay -> append"
             ELSE IF TypOf(r) = "host" THEN "replace" ELSE "append"

\* ---- validation: "invalid rule sets (bad IPs, CIDR/Local mismatch, unsupported type) are rejected at construction"
RuleValid(r) == /\ TypOf(r) \in {"host", "srflx", "relay"}
                /\ \A e \in Rng(r.ext) : IsIP(e)
                /\ r.local = "" \/ IsIP(r.local)
                /\ r.cidr = "" \/ IsCidr(r.cidr)
                /\ (r.local # "" /\ r.cidr # "" /\ IsIP(r.local) /\ IsCidr(r.cidr)) => InCidr(r.local, r.cidr)
Valid(rules) == \A k \in 1..Len(rules) : RuleValid(rules[k])

\* ---- lookup
NetOK(r, f) == Len(r.nets) = 0 \/ \E n \in Rng(r.nets) : NetFam[n] = f          \* "Networks ... nil/empty = all"
ScopeOK(r, ip, iface) == (r.iface = "" \/ r.iface = iface) /\ (r.cidr = "" \/ InCidr(ip, r.cidr))
\* "When empty [Local], External acts as a catch-all for the family implied by the local scope (CIDR when set,
\*  otherwise the external IP family)"
Target(r, e) == IF r.cidr # "" THEN CidrFam[r.cidr] ELSE Fam[e]
Filter(s, T(_)) == LET RECURSIVE Go(_) Go(k) == IF k = 0 THEN <<>> ELSE IF T(s[k]) THEN Append(Go(k - 1), s[k]) ELSE Go(k - 1) IN Go(Len(s))
CatchExt(r, f) == Filter(r.ext, LAMBDA e : Target(r, e) = f)
\* a rule pinned to a local address applies to exactly that address ("regardless of IP family" of the externals)
ExplicitFor(r, ip) == r.local = ip /\ NetOK(r, Fam[ip])
\* a catch-all applies to local family f when it has externals for f, or when its external list is empty (drop / no-op rule)
CatchFor(r, f) == r.local = "" /\ NetOK(r, f) /\ (Len(r.ext) = 0 \/ Len(CatchExt(r, f)) > 0)
\* "iface+CIDR > iface-only > CIDR-only > global"
Specificity(r) == (IF r.iface # "" THEN 2 ELSE 0) + (IF r.cidr # "" THEN 1 ELSE 0)
Shape(r) == IF r.local # "" THEN "local" ELSE
            CASE Specificity(r) = 3 -> "iface+cidr" [] Specificity(r) = 2 -> "iface" [] Specificity(r) = 1 -> "cidr" [] OTHER -> "global"

NoMatch == [matched |-> FALSE, mode |-> "none", ext |-> <<>>]
\* index of the deciding rule (0 = none): "explicit Local matches win immediately [in declaration order]. Otherwise, the most
\* specific catch-all is chosen, with declaration order breaking ties at the same specificity."
\* (Sp and Ca are parameters only so that the monitor can name the deviation that explains a disagreement.)
WinnerG(rules, typ, ip, iface, Sp(_), Ca(_, _)) ==
  LET f == Fam[ip]
      cand == {k \in 1..Len(rules) : TypOf(rules[k]) = typ /\ ScopeOK(rules[k], ip, iface)}
      expl == {k \in cand : ExplicitFor(rules[k], ip)}
      catch == {k \in cand : Ca(rules[k], f)}
  IN IF expl # {} THEN CHOOSE i \in expl : \A j \in expl : i <= j
     ELSE IF catch # {} THEN CHOOSE i \in catch : \A j \in catch :
               Sp(rules[j]) < Sp(rules[i]) \/ (Sp(rules[j]) = Sp(rules[i]) /\ i <= j)
     ELSE 0
ResultOf(rules, k, ip) ==
  IF k = 0 THEN NoMatch
  ELSE [matched |-> TRUE, mode |-> ModeOf(rules[k]),
        ext |-> IF rules[k].local # "" THEN rules[k].ext ELSE CatchExt(rules[k], Fam[ip])]
Winner(rules, typ, ip, iface) == WinnerG(rules, typ, ip, iface, Specificity, CatchFor)
Lookup(rules, typ, ip, iface) == ResultOf(rules, Winner(rules, typ, ip, iface), ip)

\* ---- application: "Replace mode substitutes the local address (an empty external list drops the candidate), append mode adds
\* to it (an empty list changes nothing)"; orig is the address the candidate would carry without rules
Apply(res, orig) == IF ~res.matched THEN [keep |-> TRUE, addrs |-> <<orig>>]
                    ELSE IF res.mode = "replace" THEN [keep |-> Len(res.ext) > 0, addrs |-> res.ext]
                    ELSE [keep |-> TRUE, addrs |-> <<orig>> \o res.ext]

\* ---- legacy NAT1To1IPs: entries "ext" (catch-all for ext's family) or "ext/local"; entry == [ext, local, parts]
LegacyEntryValid(e) == e.parts \in {1, 2} /\ IsIP(e.ext) /\ (e.parts = 2 => IsIP(e.local))
\* "duplicate legacy catch-alls" (two bare externals of one family) are rejected
LegacyValid(es) == /\ \A k \in 1..Len(es) : LegacyEntryValid(es[k])
                   /\ \A i, j \in 1..Len(es) : (i < j /\ es[i].parts = 1 /\ es[j].parts = 1) => Fam[es[i].ext] # Fam[es[j].ext]
LegacyRules(es, typ) == [k \in 1..Len(es) |-> [ext |-> <<es[k].ext>>, local |-> IF es[k].parts = 2 THEN es[k].local ELSE "",
                                               iface |-> "", cidr |-> "", typ |-> typ, mode |-> "", nets |-> <<>>]]
====
