CONSTANTS CandFile = "cands.ndjson" CandRealFile = "creal.ndjson" PairRealFile = "cpairs.ndjson" LineFile = "lines.ndjson" LineRealFile = "lreal.ndjson"
 Check = {"NoPanic", "Constructible", "SelfEqual", "SelfDeepEqual", "RoundTripParses", "GettersPreserved", "RoundTripEqual", "RoundTripDeepEqual",
          "FoundationPreserved", "PriorityPreserved", "MarshalIdempotent", "EqualAgrees", "EqualSymmetric", "DeepImpliesEqual", "DeepEqualAgrees",
          "DeepEqualSymmetric", "GrammarAccepts", "FieldsAgree", "AcceptedReparses"}
INIT Init
NEXT Next
INVARIANT Report
