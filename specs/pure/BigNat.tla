---- MODULE BigNat ----
(* Natural numbers beyond TLC's 32-bit integers: little-endian sequences of      *)
(* base-256 digits. Every intermediate value stays below 2^20.                   *)
EXTENDS Naturals, Sequences
B == 256
Digit(a, k) == IF k <= Len(a) THEN a[k] ELSE 0
RECURSIVE Carry(_, _)
\* propagate carries through a sequence of column sums
Carry(s, c) == IF s = <<>> THEN (IF c = 0 THEN <<>> ELSE Carry(<<c>>, 0))
               ELSE <<(Head(s) + c) % B>> \o Carry(Tail(s), (Head(s) + c) \div B)
RECURSIVE Trim(_)
Trim(a) == IF a # <<>> /\ a[Len(a)] = 0 THEN Trim(SubSeq(a, 1, Len(a) - 1)) ELSE a
Max2(x, y) == IF x > y THEN x ELSE y
Add(a, b) == Trim(Carry([k \in 1..Max2(Len(a), Len(b)) |-> Digit(a, k) + Digit(b, k)], 0))
RECURSIVE SumTo(_, _)
SumTo(f, n) == IF n = 0 THEN 0 ELSE f[n] + SumTo(f, n - 1)
\* schoolbook product: column k collects a[i]*b[k+1-i]
Mul(a, b) == IF a = <<>> \/ b = <<>> THEN <<>> ELSE
             Trim(Carry([k \in 1..(Len(a) + Len(b)) |-> SumTo([i \in 1..Len(a) |-> Digit(a, i) * (IF k + 1 - i >= 1 THEN Digit(b, k + 1 - i) ELSE 0)], Len(a))], 0))
RECURSIVE LessFrom(_, _, _)
LessFrom(a, b, k) == IF k = 0 THEN FALSE ELSE IF Digit(a, k) # Digit(b, k) THEN Digit(a, k) < Digit(b, k) ELSE LessFrom(a, b, k - 1)
Less(a, b) == LessFrom(a, b, Max2(Len(a), Len(b)))
Eq(a, b) == Trim(a) = Trim(b)
Leq(a, b) == Less(a, b) \/ Eq(a, b)
RECURSIVE FromNat(_)
FromNat(n) == IF n = 0 THEN <<>> ELSE <<n % B>> \o FromNat(n \div B)
Pad(a, n) == [k \in 1..n |-> Digit(a, k)]
FitsIn(a, n) == Len(Trim(a)) <= n
\* sanity of the arithmetic itself, on values TLC can compute natively
ASSUME \A x, y \in {0, 1, 255, 256, 257, 32767, 46340} :
         /\ Add(FromNat(x), FromNat(y)) = FromNat(x + y)
         /\ Mul(FromNat(x), FromNat(y)) = FromNat(x * y)
         /\ Less(FromNat(x), FromNat(y)) = (x < y)
====
