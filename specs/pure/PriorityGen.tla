---- MODULE PriorityGen ----
(* Enumerates configurations (TCP priority offset) x candidate shapes, checks the *)
(* range laws of C17 on the specification, and writes the expected numbers.        *)
EXTENDS Priority, FiniteSets, Json, SequencesExt
CONSTANTS Offsets,     \* set of TCP priority offsets to enumerate
          Comps,       \* component ids
          PairPts,     \* sequence of uint32 priorities (4 base-256 digits, little endian): boundaries and seeded random points
          ComboFile, ExpFile, PairFile, FoundFile

Protos(t) == IF t = "relay" THEN {"udp", "dtls", "tcp", "tls"} ELSE {""}
Combo(t, n, tt, p, c) == [typ |-> t, net |-> n, tt |-> tt, proto |-> p, comp |-> c]
ComboSet == {Combo(t, "udp", "", p, c) : t \in Types, p \in UNION {Protos(t2) : t2 \in Types}, c \in Comps}
            \cup {Combo(t, "tcp", tt, p, c) : t \in Types, tt \in {"active", "passive", "so", ""}, p \in UNION {Protos(t2) : t2 \in Types}, c \in Comps}
            \* what decides is the network type: a host candidate on UDP that was given a TCP type is a UDP candidate
            \cup {Combo("host", "udp", "active", "", c) : c \in Comps}
Combos == SetToSeq({x \in ComboSet : x.proto \in Protos(x.typ)})
Exp(x, off) == LET ex == TypePrefExact(x.typ, x.net, off)
                   tp == IF ex THEN TypePref(x.typ, x.net, off) ELSE 0
                   lp == LocalPref(x.typ, x.net, x.tt, x.proto)
               IN [exact |-> ex, tp |-> tp, lp |-> lp, prio |-> IF ex THEN CandPrio(tp, lp, x.comp) ELSE 0]
Line(off) == [off |-> off, exp |-> [j \in 1..Len(Combos) |-> Exp(Combos[j], off)]]

\* ---- laws on the specification
RangeLaw(off) == \A j \in 1..Len(Combos) : LET x == Combos[j] e == Exp(x, off) IN
   /\ e.lp \in 0..65535
   /\ e.exact => /\ e.tp \in 0..126
                 /\ e.prio \in 0..MaxPrio
                 /\ (x.comp \in 1..255 => e.prio >= 1)
\* the formula stays in range for every admissible type and local preference, not only the ones in use
FormulaRange == \A tp \in 0..126, lp \in {0, 1, 8191, 16383, 32767, 57343, 65534, 65535}, c \in 1..256 :
                   CandPrio(tp, lp, c) \in 0..MaxPrio /\ (c <= 255 => CandPrio(tp, lp, c) >= 1)
ASSUME FormulaRange
NP == Len(PairPts)
ASSUME \A i \in 1..(NP - 1) : Less(PairPts[i], PairPts[i + 1])       \* points are given in ascending order
\* monotonicity is checked between neighbouring points; it extends to all pairs of points by transitivity
PairLaw(i) == \A j \in 1..NP : LET g == PairPts[i] d == PairPts[j] p == PairPrio(g, d) IN
   /\ FitsIn(p, 8)                                                         \* no overflow below 2^64
   /\ i < NP => Less(p, PairPrio(PairPts[i + 1], d))                       \* strictly monotone in the controlling side's priority
   /\ j < NP => Less(p, PairPrio(g, PairPts[j + 1]))                       \* and in the controlled side's
   /\ Eq(Add(p, IF Less(g, d) THEN <<1>> ELSE <<>>), Add(PairPrio(d, g), IF Less(d, g) THEN <<1>> ELSE <<>>))   \* role swap changes the tie bit only

\* ---- foundation domain: candidates that share (type, address, network type) and differ elsewhere
\* (on tcp also the TCP type: the active and the passive candidate of one address share a foundation)
FoundSeq == SetToSeq({[typ |-> t, addr |-> a, net |-> n, port |-> p, comp |-> c, tt |-> x] :
                        t \in Types, a \in {"10.0.0.1", "10.0.0.2", "fd00::1"}, n \in {"udp", "tcp"}, p \in {5000, 5001}, c \in {1, 2},
                        x \in {"", "active", "passive"}} \ {f \in [typ : Types, addr : {"10.0.0.1", "10.0.0.2", "fd00::1"}, net : {"udp"}, port : {5000, 5001}, comp : {1, 2}, tt : {"active", "passive"}] : TRUE})

ASSUME ndJsonSerialize(ComboFile, Combos)
ASSUME ndJsonSerialize(ExpFile, SetToSeq({Line(off) : off \in Offsets}))
ASSUME ndJsonSerialize(PairFile, SetToSeq({[g |-> PairPts[i], d |-> PairPts[j], exp |-> Pad(PairPrio(PairPts[i], PairPts[j]), 8)] : i, j \in 1..NP}))
ASSUME ndJsonSerialize(FoundFile, FoundSeq)
ASSUME PrintT(<<"sizes", Cardinality(Offsets), Len(Combos), NP * NP, Len(FoundSeq)>>)
VARIABLE s
Init == s \in ([k : {"off"}, v : Offsets] \cup [k : {"pair"}, v : 1..NP])
Next == UNCHANGED s
LawsHold == IF s.k = "off" THEN RangeLaw(s.v) ELSE PairLaw(s.v)
====
