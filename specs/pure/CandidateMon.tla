---- MODULE CandidateMon ----
(* Verdict for the candidate part of C16: what the real constructors, Marshal,     *)
(* UnmarshalCandidate, Equal and DeepEqual did, against the abstract candidates     *)
(* and relations of CandidateCodec.                                                  *)
EXTENDS CandidateCodec, Json
CONSTANTS CandFile, CandRealFile, PairRealFile, LineFile, LineRealFile, Check
C == ndJsonDeserialize(CandFile)
R == ndJsonDeserialize(CandRealFile)
P == ndJsonDeserialize(PairRealFile)
L == ndJsonDeserialize(LineFile)
LR == ndJsonDeserialize(LineRealFile)
VARIABLE s
Init == s \in ([k : {"cand"}, v : 1..Len(C)] \cup [k : {"pair"}, v : 1..Len(P)] \cup [k : {"line"}, v : 1..Len(L)])
Next == UNCHANGED s
On(n) == n \in Check
Viol(name, j, a) == PrintT(<<"VIOL", name, s.k, s.v, j, a>>)
Holds(name, cond, j, a) == (On(name) /\ ~cond) => Viol(name, j, a)
FirstDiff(c, g) == CASE g.typ # c.typ -> "typ" [] g.net # c.net -> "net" [] g.tcptype # c.tcptype -> "tcptype" [] g.addr # c.addr -> "addr"
                     [] g.port # c.port -> "port" [] g.comp # c.comp -> "comp" [] g.rel # c.rel -> "rel" [] g.ext # c.ext -> "ext" [] OTHER -> "-"
CandOK(i) == LET c == C[i] r == R[i] IN
  /\ Holds("NoPanic", ~r.panic, 0, "-")
  /\ Holds("Constructible", r.built, 0, "-")
  /\ r.built =>
     /\ Holds("SelfEqual", r.selfEq, 0, "-")
     /\ Holds("SelfDeepEqual", r.selfDeq, 0, "-")
     /\ Holds("RoundTripParses", r.rtOK, 0, "-")
     /\ r.rtOK =>
        /\ Holds("GettersPreserved", FirstDiff(c, r.rt) = "-", 0, FirstDiff(c, r.rt))
        /\ Holds("RoundTripEqual", r.rtEq /\ r.rtEqRev, 0, "-")
        /\ Holds("RoundTripDeepEqual", r.rtDeq /\ r.rtDeqRev, 0, "-")
        /\ Holds("FoundationPreserved", r.foundSame, 0, "-")
        /\ Holds("PriorityPreserved", r.prioSame, 0, "-")
        /\ Holds("MarshalIdempotent", r.idem, 0, "-")
PairOK(i) == \A j \in 1..Len(P) : LET a == C[P[i].idx] b == C[P[j].idx] IN
  /\ Holds("EqualAgrees", P[i].eq[j] = EqualSpec(a, b), j, IF EqualSpec(a, b) THEN "expected-equal" ELSE "expected-different")
  /\ Holds("EqualSymmetric", P[i].eq[j] = P[j].eq[i], j, "-")
  /\ Holds("DeepImpliesEqual", P[i].deq[j] => P[i].eq[j], j, "-")
  /\ Holds("DeepEqualAgrees", P[i].deq[j] = DeepEqualSpec(a, b), j, IF DeepEqualSpec(a, b) THEN "expected-equal" ELSE "expected-different")
  /\ Holds("DeepEqualSymmetric", P[i].deq[j] = P[j].deq[i], j, "-")
\* "TCP types on host candidates": a TCP type is not demanded back of other types
LineDiff(d, r) == CASE r.got.typ # d.typ -> "typ" [] r.got.net # d.net -> "net" [] r.got.addr # d.addr -> "addr" [] r.port # d.port -> "port"
                    [] r.comp # d.comp -> "comp" [] r.prio # d.prio -> "prio" [] r.foundation # d.foundation -> "foundation"
                    [] (d.typ = "host" /\ r.got.tcptype # d.tcptype) -> "tcptype" [] r.got.rel # d.rel -> "rel" [] r.got.ext # d.ext -> "ext" [] OTHER -> "-"
LineOK(i) == LET l == L[i] r == LR[i] IN
  /\ Holds("NoPanic", ~r.panic, 0, "-")
  /\ Holds("GrammarAccepts", l.valid => r.accepted, 0, "-")
  /\ (l.valid /\ r.accepted) => Holds("FieldsAgree", LineDiff(l.den, r) = "-", 0, LineDiff(l.den, r))
  /\ r.accepted => Holds("AcceptedReparses", r.reOK /\ r.reEq, 0, IF r.reOK THEN "not-equal" ELSE "rejected")
Report == CASE s.k = "cand" -> CandOK(s.v) [] s.k = "pair" -> PairOK(s.v) [] s.k = "line" -> LineOK(s.v)
====
