---- MODULE PriorityMon ----
(* Verdict for C17: real TypePreference/LocalPreference/Priority per offset and   *)
(* shape, real pair priorities on both agents, real foundations - against the     *)
(* numbers written by PriorityGen.                                                 *)
EXTENDS Priority, Json
CONSTANTS ComboFile, ExpFile, RealFile, PairFile, PairRealFile, FoundFile, FoundRealFile, Check
Combos == ndJsonDeserialize(ComboFile)
ExpL == ndJsonDeserialize(ExpFile)
RealL == ndJsonDeserialize(RealFile)
Pairs == ndJsonDeserialize(PairFile)
PairsR == ndJsonDeserialize(PairRealFile)
Found == ndJsonDeserialize(FoundFile)
FoundR == ndJsonDeserialize(FoundRealFile)
VARIABLE s
Init == s \in ([k : {"off"}, v : 1..Len(ExpL)] \cup [k : {"pair"}, v : 1..Len(Pairs)] \cup [k : {"found"}, v : 1..Len(Found)])
Next == UNCHANGED s
On(n) == n \in Check
Viol(name, j, a, b, c) == PrintT(<<"VIOL", name, s.k, s.v, j, a, b, c>>)
OffOK(l) == LET e == ExpL[l] r == RealL[l] IN
  /\ r.off = e.off
  /\ \A j \in 1..Len(Combos) : LET x == Combos[j] ex == e.exp[j] v == r.vals[j]
                                   over == IF ex.exact THEN "within" ELSE "offset>base"
                                   prio == <<v[3], v[4], v[5], v[6]>> IN
       /\ On("TypePrefRange") => (v[1] \in 0..126 \/ Viol("TypePrefRange", j, x.typ, x.net, over))
       /\ (On("TypePrefExact") /\ ex.exact) => (v[1] = ex.tp \/ Viol("TypePrefExact", j, x.typ, x.net, over))
       /\ On("LocalPrefAgrees") => (v[2] = ex.lp \/ Viol("LocalPrefAgrees", j, x.typ, x.net, x.tt))
       /\ (On("PriorityAgrees") /\ ex.exact) => (prio = Pad(FromNat(ex.prio), 4) \/ Viol("PriorityAgrees", j, x.typ, x.net, over))
       /\ On("PriorityRange") => ((v[6] < 128 /\ (x.comp \in 1..255 => prio # <<0, 0, 0, 0>>)) \/ Viol("PriorityRange", j, x.typ, x.net, over))
PairOK(l) == LET p == Pairs[l] r == PairsR[l] IN
  /\ On("PairAgrees") => (r.a = p.exp \/ Viol("PairAgrees", 0, "controlling", "-", "-"))
  /\ On("PairAgrees") => (r.b = p.exp \/ Viol("PairAgrees", 0, "controlled", "-", "-"))
  /\ On("PairMirror") => (r.a = r.b \/ Viol("PairMirror", 0, "-", "-", "-"))
Key(f) == <<f.typ, f.addr, f.net>>
FoundOK(l) == \A m \in 1..Len(Found) :
  /\ (On("FoundationFunctional") /\ Key(Found[l]) = Key(Found[m])) => (FoundR[l].f = FoundR[m].f \/ Viol("FoundationFunctional", m, Found[l].typ, "-", "-"))
  /\ (On("FoundationDistinct") /\ Key(Found[l]) # Key(Found[m]) /\ FoundR[l].f = FoundR[m].f) =>
        (FoundR[l].crc = FoundR[m].crc \/ Viol("FoundationDistinct", m, Found[l].typ, Found[m].typ, "-"))
Report == CASE s.k = "off" -> OffOK(s.v) [] s.k = "pair" -> PairOK(s.v) [] s.k = "found" -> FoundOK(s.v)
====
