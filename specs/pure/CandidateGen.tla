---- MODULE CandidateGen ----
(* Enumerates the candidate domain and the token-level lines; checks the laws of   *)
(* the equality relations on the specification; writes the cases.                    *)
EXTENDS CandidateCodec, Json, SequencesExt
CONSTANTS ExtLen,      \* 1 or 2: maximal length of extension lists
          PairPool,    \* two-element extension lists range over the first PairPool entries of ExtPool
          Dev,         \* lines deviate from the base line in at most Dev fields
          CandFile, LineFile
Cands == Domain(ExtLen, PairPool)
\* the laws are checked on every pair of the part of the domain with the standard address (the relations never look inside addresses)
LawSet == DomainOver({"10.0.0.1", "abcd.local"}, {1}, ExtLists(1, 0)) \cup DomainOver({"10.0.0.1"}, {1}, {e \in DupExtLists : Len(e) = 2})
Laws(a) == LET L == LawSet  mine == {x \in L : SameTransport(x, a)} IN
           /\ EqualSpec(a, a) /\ DeepEqualSpec(a, a)
           /\ \A b \in L : /\ EqualSpec(a, b) = EqualSpec(b, a)
                           /\ DeepEqualSpec(a, b) = DeepEqualSpec(b, a)
                           /\ DeepEqualSpec(a, b) => EqualSpec(a, b)
                           /\ EqualSpec(a, b) => b \in mine
           /\ \A b, d \in mine : (EqualSpec(a, b) /\ EqualSpec(b, d)) => EqualSpec(a, d)        \* transitive
Base == [f \in Rng(FieldNames) |-> 1]
\* all choices that deviate from the base line (first token of every pool) in at most Dev fields
RECURSIVE Deviate(_, _)
Deviate(chs, n) == IF n = 0 THEN chs
                   ELSE Deviate(chs \cup {[ch EXCEPT ![f] = k] : ch \in chs, f \in Rng(FieldNames), k \in 1..7} , n - 1)
LineChoices == {ch \in Deviate({Base}, Dev) : \A f \in Rng(FieldNames) : ch[f] <= Len(Pools[f])}
LineCase(ch) == [tokens |-> LineTokens(ch), valid |-> LineValid(ch), den |-> Denotes(ch)]
ASSUME LET s == SetToSeq(Cands) IN PrintT(<<"candidates", Len(s)>>) /\ ndJsonSerialize(CandFile, s)
ASSUME LET s == SetToSeq({LineCase(ch) : ch \in LineChoices}) IN PrintT(<<"lines", Len(s)>>) /\ ndJsonSerialize(LineFile, s)
VARIABLE c
Init == c \in LawSet
Next == UNCHANGED c
LawsHold == Laws(c)
====
