---- MODULE AttrCodec ----
(* C16, attribute part: wire encodings and size rules of the ICE STUN attributes.  *)
(* Numbers are little-endian base-256 digit sequences (BigNat), wire bytes are      *)
(* sequences of 0..255.                                                              *)
EXTENDS BigNat, TLC
Rev(s) == [k \in 1..Len(s) |-> s[Len(s) + 1 - k]]
BE(v, w) == Rev(Pad(v, w))                     \* big-endian, fixed width
RECURSIVE Concat(_)
Concat(ss) == IF ss = <<>> THEN <<>> ELSE Head(ss) \o Concat(Tail(ss))
Chunk(b, k) == SubSeq(b, 4 * k - 3, 4 * k)
\* attr: "priority" (RFC 8445 16.1, 32 bit), "controlling"/"controlled" (64-bit tie-breaker), "nomination" (one zero byte and a
\* 24-bit value), "ack" (DTLS-in-STUN ACK: up to four 32-bit values), "dtls" (DTLS-in-STUN: the record bytes), "usecandidate" (no value)
Width == "priority" :> 4 @@ "controlling" :> 8 @@ "controlled" :> 8
Numeric(a) == a \in DOMAIN Width
\* is val inside the attribute's value domain ?
InValueDomain(a, val) == CASE Numeric(a) -> FitsIn(val, Width[a]) [] a = "nomination" -> FitsIn(val, 3) [] a = "ack" -> Len(val) <= 4 [] OTHER -> TRUE
Encode(a, val) == CASE Numeric(a) -> BE(val, Width[a])
                    [] a = "nomination" -> <<0>> \o BE(val, 3)
                    [] a = "ack" -> Concat([k \in 1..Len(val) |-> BE(val[k], 4)])
                    [] a = "dtls" -> val
                    [] a = "usecandidate" -> <<>>
\* "reject wrong sizes"
SizeOK(a, n) == CASE Numeric(a) -> n = Width[a] [] a = "nomination" -> n = 4 [] a = "ack" -> n % 4 = 0 /\ n <= 16 [] OTHER -> TRUE
Decode(a, b) == CASE Numeric(a) -> Rev(b)
                  [] a = "nomination" -> Rev(SubSeq(b, 2, 4))
                  [] a = "ack" -> [k \in 1..(Len(b) \div 4) |-> Rev(Chunk(b, k))]
                  [] OTHER -> b
\* equality of attribute values (numbers irrespective of leading zero digits)
SameVal(a, x, y) == CASE Numeric(a) \/ a = "nomination" -> Eq(x, y)
                      [] a = "ack" -> Len(x) = Len(y) /\ \A k \in 1..Len(x) : Eq(x[k], y[k])
                      [] OTHER -> x = y
====
