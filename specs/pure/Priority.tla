---- MODULE Priority ----
(* Candidate and pair priorities (C17) as stated by the property: RFC 8445       *)
(* 5.1.2.1 / 6.1.2.3, RFC 6544 4.2 for TCP, relay-protocol preference for        *)
(* relays, type preferences reduced by the configured TCP offset.                 *)
EXTENDS BigNat, TLC
Types == {"host", "prflx", "srflx", "relay"}
BasePref == "host" :> 126 @@ "prflx" :> 110 @@ "srflx" :> 100 @@ "relay" :> 0
\* "type preferences 126/110/100/0 ... reduced by the configured TCP offset for TCP candidates"; the value is pinned only while
\* the reduction stays inside the range, beyond that the property demands the range 0..126 and nothing more
TypePrefExact(t, net, off) == net = "udp" \/ off <= BasePref[t]
TypePref(t, net, off) == IF net = "udp" THEN BasePref[t] ELSE BasePref[t] - off
\* RFC 6544 4.2: local preference = 2^13 * direction-pref + other-pref (8191 for a single address)
\* (a TCP candidate built without a direction has direction preference 0: the least preferred of its kind)
DirPref(t, tt) == IF tt = "" THEN 0
                  ELSE IF t \in {"host", "relay"} THEN (CASE tt = "active" -> 6 [] tt = "passive" -> 4 [] tt = "so" -> 2)
                  ELSE (CASE tt = "so" -> 6 [] tt = "active" -> 4 [] tt = "passive" -> 2)
\* relay candidates: preference of the protocol spoken to the relay server (UDP > DTLS > TCP > TLS)
RelayPref == "udp" :> 3 @@ "dtls" :> 2 @@ "tcp" :> 1 @@ "tls" :> 0
LocalPref(t, net, tt, proto) == IF t = "relay" THEN RelayPref[proto]
                                ELSE IF net = "tcp" THEN 8192 * DirPref(t, tt) + 8191
                                ELSE 65535
\* "2^24 * type-preference + 2^8 * local-preference + (256 - component)"
CandPrio(tp, lp, comp) == 16777216 * tp + 256 * lp + (256 - comp)
MaxPrio == 2147483647
\* pair priority "min * (2^32 - 1) + 2 * max + (controlling-side priority greater ? 1 : 0)"; g, d as BigNat
M32 == <<255, 255, 255, 255>>
PairPrio(g, d) == LET mn == IF Less(g, d) THEN g ELSE d
                      mx == IF Less(g, d) THEN d ELSE g
                  IN Add(Add(Mul(mn, M32), Mul(<<2>>, mx)), IF Less(d, g) THEN <<1>> ELSE <<>>)
====
