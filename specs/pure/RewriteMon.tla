---- MODULE RewriteMon ----
(* Verdict for C19: compares what the real pion/ice code returned for every     *)
(* case with the value the specification (RewriteGen) wrote for it. Predicates   *)
(* never make TLC fail; Report prints one VIOL line per violated instance.        *)
EXTENDS Rewrite, TLC, Json
CONSTANTS CaseFile, KeyFile, RealFile, Check
Cases == ndJsonDeserialize(CaseFile)
Keys == ndJsonDeserialize(KeyFile)
Real == ndJsonDeserialize(RealFile)
RelayAddr == "198.51.100.77"
VARIABLE l
Init == l \in 1..Len(Cases)
Next == UNCHANGED l

RulesOf(c) == IF c.kind = "rules" THEN c.rules ELSE LegacyRules(c.entries, c.typ)
\* known ways in which an implementation may read the rules differently; used only to LABEL a disagreement
SpTie(r, iface) == IF r.iface = "" /\ iface # "" THEN 0 ELSE Specificity(r)      \* CIDR-only ties with global under a named interface
CaFiltered(r, f) == r.local = "" /\ NetOK(r, f) /\ (Len(r.ext) = 0 \/ Len(CatchExt(r, f)) > 0 \/ \A e \in Rng(r.ext) : ~NetOK(r, Target(r, e)))
Alt(rules, k, sp, ca) == LET w == IF sp /\ ca THEN WinnerG(rules, k.typ, k.ip, k.iface, LAMBDA r : SpTie(r, k.iface), CaFiltered)
                                  ELSE IF sp THEN WinnerG(rules, k.typ, k.ip, k.iface, LAMBDA r : SpTie(r, k.iface), CatchFor)
                                  ELSE WinnerG(rules, k.typ, k.ip, k.iface, Specificity, CaFiltered)
                         IN <<w, ResultOf(rules, w, k.ip)>>
Explained(rules, k, real) == IF Alt(rules, k, TRUE, FALSE)[2] = real THEN <<"cidr-only-ties-with-global", Alt(rules, k, TRUE, FALSE)[1]>>
                             ELSE IF Alt(rules, k, FALSE, TRUE)[2] = real THEN <<"externals-all-excluded-by-networks-acts-as-empty", Alt(rules, k, FALSE, TRUE)[1]>>
                             ELSE IF Alt(rules, k, TRUE, TRUE)[2] = real THEN <<"both-deviations", Alt(rules, k, TRUE, TRUE)[1]>>
                             ELSE <<"unexplained", 0>>
ShapeAt(rules, w) == IF w = 0 THEN "none" ELSE Shape(rules[w])

\* ---- predicates; each returns TRUE or prints
Viol(name, key, side, a, b, c2) == PrintT(<<"VIOL", name, l, key, side, a, b, c2>>)
SideOK(c, side, s) ==
  /\ ("ConstructAgrees" \in Check /\ s.ran) => (s.err = ~c.valid \/ Viol("ConstructAgrees", 0, side, IF c.valid THEN "accept" ELSE "reject", "-", "-"))
  /\ (s.ran /\ (~s.err \/ s.installed) /\ c.valid) => \A j \in 1..Len(Keys) :
       LET k == Keys[j]  e == c.out[j]  o == s.out[j] IN
       /\ "LookupAgrees" \in Check => \/ (o.res = e.res /\ ~o.lerr)
                                      \/ LET x == Explained(RulesOf(c), k, o.res) IN
                                         Viol("LookupAgrees", j, side, x[1], ShapeAt(RulesOf(c), e.winner), ShapeAt(RulesOf(c), x[2]))
       /\ ("ApplyAgrees" \in Check /\ side = "agent" /\ k.typ \in {"host", "relay"}) =>
            \/ o.apply = Apply(o.res, IF k.typ = "relay" THEN RelayAddr ELSE k.ip)
            \/ Viol("ApplyAgrees", j, side, k.typ, o.res.mode, IF o.res.ext = <<>> THEN "empty" ELSE "nonempty")
Report == LET c == Cases[l]  r == Real[l] IN SideOK(c, "direct", r.direct) /\ SideOK(c, "agent", r.agent)
====
