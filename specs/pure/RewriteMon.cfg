CONSTANTS CaseFile = "cases.ndjson" KeyFile = "keys.ndjson" RealFile = "real.ndjson"
 Check = {"ConstructAgrees", "LookupAgrees", "ApplyAgrees"}
INIT Init
NEXT Next
INVARIANT Report
