---- MODULE PairPrioApalache ----
(* Extra for C17: with unbounded integers (Apalache, SMT) the pair-priority       *)
(* formula is shown free of overflow below 2^64 and strictly monotone in each      *)
(* argument for ALL uint32 priorities, not only the enumerated points.             *)
EXTENDS Integers
VARIABLES
  \* @type: Int;
  g,
  \* @type: Int;
  d,
  \* @type: Int;
  h
U32 == 4294967295
U64 == 18446744073709551615
Min(a, b) == IF a < b THEN a ELSE b
Max(a, b) == IF a > b THEN a ELSE b
PP(a, b) == Min(a, b) * U32 + 2 * Max(a, b) + (IF a > b THEN 1 ELSE 0)
Init == g \in 0..U32 /\ d \in 0..U32 /\ h \in 0..U32
Next == UNCHANGED <<g, d, h>>
NoOverflow == PP(g, d) >= 0 /\ PP(g, d) <= U64
MonotoneG == g < h => PP(g, d) < PP(h, d)
MonotoneD == d < h => PP(g, d) < PP(g, h)
SwapTieOnly == PP(g, d) - (IF g > d THEN 1 ELSE 0) = PP(d, g) - (IF d > g THEN 1 ELSE 0)
All == NoOverflow /\ MonotoneG /\ MonotoneD /\ SwapTieOnly
====
