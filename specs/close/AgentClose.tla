---- MODULE AgentClose ----
(* The agent's close protocol, one action per step of the code:                        *)
(*   close():   loop.CloseWithPreStop(abortStartedCandidateIO)  =  closeOnce{ mark closed; close(done);     *)
(*              preStop: abort candidate I/O }; wait for the loop to exit; then close the three notifiers   *)
(*              (GracefulClose: wait for the drainers).                                                     *)
(*   loop exit: onClose = cancel gatherer; wait for it; drop mux entries; close candidates (each waits for  *)
(*              its receive loop); close the read buffer; report Closed.                                    *)
(* together with everything that can be blocked at that moment: a loop task stuck in a socket write, the    *)
(* candidate receive loop (in a socket read or submitting a task), the gatherer (submitting tasks), API     *)
(* callers blocked in Dial/AwaitConnect, Conn.Read, a loop.Run, and a handler that is still running (and    *)
(* may itself be the closer).                                                                                *)
EXTENDS Naturals, Sequences, FiniteSets, TLC
CONSTANTS Closers,        \* set of closer ids
          Graceful,       \* Graceful[i] : closer i calls GracefulClose
          InCallback,     \* InCallback[i] : the callback stream ("state", "cand", "pair") inside whose handler closer i runs; "" = an API goroutine
          BlockedWrite,   \* the loop is running a task that sits in a socket write when the close starts
          Gathering,      \* a gatherer goroutine is running when the close starts
          SlowHandler     \* a handler invocation is in progress when the close starts
VARIABLES pc,         \* pc[i] : closer i
          onceTaken, done, sockClosed,
          loop,       \* "idle" | "task" | "oc_gather" | "oc_cands" | "oc_buf" | "oc_state" | "exited"
          gath,       \* "none" | "running" | "submitting" | "exited"
          gcancel,
          recv,       \* "reading" | "submitting" | "exited"
          bufClosed,
          callers,    \* callers[c] \in {"blocked", "err"} for c \in {"dial", "read", "run"}
          queue, drainer, nclosed, delivered
vars == <<pc, onceTaken, done, sockClosed, loop, gath, gcancel, recv, bufClosed, callers, queue, drainer, nclosed, delivered>>
CallerIds == {"dial", "await", "read", "write", "run"}
Streams == {"state", "cand", "pair"}      \* the three notifiers; only the connection-state stream receives an event (Closed) from the close itself
Init == /\ pc = [i \in Closers |-> "start"] /\ onceTaken = FALSE /\ done = FALSE /\ sockClosed = FALSE
        /\ loop = (IF BlockedWrite THEN "task" ELSE "idle")
        /\ gath = (IF Gathering THEN "running" ELSE "none") /\ gcancel = FALSE
        /\ recv = "reading" /\ bufClosed = FALSE
        /\ callers = [c \in CallerIds |-> "blocked"]
        /\ queue = <<>>
        /\ drainer = [s \in Streams |-> IF (s = "state" /\ SlowHandler) \/ \E i \in Closers : InCallback[i] = s THEN "handler" ELSE "idle"]
        /\ nclosed = FALSE /\ delivered = <<>>
\* ---------------- closers
HandlerCloserDone(s) == \A i \in Closers : InCallback[i] = s => pc[i] = "ret"
AllIdle == \A s \in Streams : drainer[s] = "idle"
CloserOnce(i) == /\ pc[i] = "start"
                 /\ IF onceTaken THEN UNCHANGED <<onceTaken, done, sockClosed>>
                    ELSE onceTaken' = TRUE /\ done' = TRUE /\ sockClosed' = TRUE   \* closeOnce: err.Store, close(done), preStop = abort candidate I/O
                 /\ pc' = [pc EXCEPT ![i] = "wait"]
                 /\ UNCHANGED <<loop, gath, gcancel, recv, bufClosed, callers, queue, drainer, nclosed, delivered>>
CloserLoopDone(i) == /\ pc[i] = "wait" /\ loop = "exited" /\ pc' = [pc EXCEPT ![i] = "notif"]
                     /\ UNCHANGED <<onceTaken, done, sockClosed, loop, gath, gcancel, recv, bufClosed, callers, queue, drainer, nclosed, delivered>>
CloserNotif(i) == /\ pc[i] = "notif" /\ nclosed' = TRUE
                  /\ pc' = [pc EXCEPT ![i] = IF Graceful[i] THEN "gwait" ELSE "ret"]
                  /\ UNCHANGED <<onceTaken, done, sockClosed, loop, gath, gcancel, recv, bufClosed, callers, queue, drainer, delivered>>
CloserGWait(i) == /\ pc[i] = "gwait" /\ AllIdle /\ queue = <<>> /\ pc' = [pc EXCEPT ![i] = "ret"]
                  /\ UNCHANGED <<onceTaken, done, sockClosed, loop, gath, gcancel, recv, bufClosed, callers, queue, drainer, nclosed, delivered>>
\* ---------------- the task loop
Submitting == (gath = "submitting") \/ (recv = "submitting") \/ (callers["run"] = "blocked")
LoopTakeTask == /\ loop = "idle" /\ Submitting          \* select may still pick a hand-off although done is closed
                /\ \/ gath = "submitting" /\ gath' = "running" /\ UNCHANGED <<recv, callers>>
                   \/ recv = "submitting" /\ recv' = "reading" /\ UNCHANGED <<gath, callers>>
                   \/ callers["run"] = "blocked" /\ callers' = [callers EXCEPT !["run"] = "ok"] /\ UNCHANGED <<gath, recv>>
                /\ UNCHANGED <<pc, onceTaken, done, sockClosed, loop, gcancel, bufClosed, queue, drainer, nclosed, delivered>>
TaskFinish == /\ loop = "task" /\ sockClosed /\ loop' = "idle"         \* the blocked socket write returns once the socket is closed
              /\ UNCHANGED <<pc, onceTaken, done, sockClosed, gath, gcancel, recv, bufClosed, callers, queue, drainer, nclosed, delivered>>
LoopExit == /\ loop = "idle" /\ done /\ loop' = "oc_gather" /\ gcancel' = TRUE
            /\ UNCHANGED <<pc, onceTaken, done, sockClosed, gath, recv, bufClosed, callers, queue, drainer, nclosed, delivered>>
OcGather == /\ loop = "oc_gather" /\ gath \in {"none", "exited"} /\ loop' = "oc_cands"
            /\ UNCHANGED <<pc, onceTaken, done, sockClosed, gath, gcancel, recv, bufClosed, callers, queue, drainer, nclosed, delivered>>
OcCands == /\ loop = "oc_cands" /\ recv = "exited" /\ loop' = "oc_buf"     \* candidate.close waits for its receive loop
           /\ UNCHANGED <<pc, onceTaken, done, sockClosed, gath, gcancel, recv, bufClosed, callers, queue, drainer, nclosed, delivered>>
OcBuf == /\ loop = "oc_buf" /\ bufClosed' = TRUE /\ loop' = "oc_state"
         /\ UNCHANGED <<pc, onceTaken, done, sockClosed, gath, gcancel, recv, callers, queue, drainer, nclosed, delivered>>
OcState == /\ loop = "oc_state" /\ loop' = "exited"
           /\ queue' = IF nclosed THEN queue ELSE Append(queue, "Closed")
           /\ UNCHANGED <<pc, onceTaken, done, sockClosed, gath, gcancel, recv, bufClosed, callers, drainer, nclosed, delivered>>
\* ---------------- everybody else
GatherStep == /\ gath = "running"
              /\ gath' = IF gcancel \/ done THEN "exited" ELSE "submitting"
              /\ UNCHANGED <<pc, onceTaken, done, sockClosed, loop, gcancel, recv, bufClosed, callers, queue, drainer, nclosed, delivered>>
GatherRefused == /\ gath = "submitting" /\ (done \/ gcancel) /\ gath' = "exited"
                 /\ UNCHANGED <<pc, onceTaken, done, sockClosed, loop, gcancel, recv, bufClosed, callers, queue, drainer, nclosed, delivered>>
RecvPacket == /\ recv = "reading" /\ ~sockClosed /\ recv' = "submitting"
              /\ UNCHANGED <<pc, onceTaken, done, sockClosed, loop, gath, gcancel, bufClosed, callers, queue, drainer, nclosed, delivered>>
RecvStop == /\ recv \in {"reading", "submitting"} /\ sockClosed /\ recv' = "exited"   \* read fails / Run(ctx = candidate) is cancelled
            /\ UNCHANGED <<pc, onceTaken, done, sockClosed, loop, gath, gcancel, bufClosed, callers, queue, drainer, nclosed, delivered>>
CallerWakes(c) == /\ callers[c] = "blocked"
                  /\ IF c = "read" THEN bufClosed ELSE done     \* Conn.Read waits on the buffer; Dial/AwaitConnect, a blocked loop.Run and a writer see the closed loop
                  /\ callers' = [callers EXCEPT ![c] = "err"]
                  /\ UNCHANGED <<pc, onceTaken, done, sockClosed, loop, gath, gcancel, recv, bufClosed, queue, drainer, nclosed, delivered>>
HandlerStart == /\ drainer["state"] = "idle" /\ queue # <<>> /\ drainer' = [drainer EXCEPT !["state"] = "handler"]
                /\ delivered' = Append(delivered, Head(queue)) /\ queue' = Tail(queue)
                /\ UNCHANGED <<pc, onceTaken, done, sockClosed, loop, gath, gcancel, recv, bufClosed, callers, nclosed>>
HandlerEnd(s) == /\ drainer[s] = "handler" /\ HandlerCloserDone(s) /\ drainer' = [drainer EXCEPT ![s] = "idle"]
              /\ UNCHANGED <<pc, onceTaken, done, sockClosed, loop, gath, gcancel, recv, bufClosed, callers, queue, nclosed, delivered>>
Next == \/ \E i \in Closers : CloserOnce(i) \/ CloserLoopDone(i) \/ CloserNotif(i) \/ CloserGWait(i)
        \/ LoopTakeTask \/ TaskFinish \/ LoopExit \/ OcGather \/ OcCands \/ OcBuf \/ OcState
        \/ GatherStep \/ GatherRefused \/ RecvPacket \/ RecvStop
        \/ \E c \in CallerIds : CallerWakes(c)
        \/ HandlerStart \/ \E s \in Streams : HandlerEnd(s)
\* a task taken by the loop runs to completion at once (it is not the blocked write); modelled inside LoopTakeTask
Fair == /\ \A i \in Closers : WF_vars(CloserOnce(i)) /\ WF_vars(CloserLoopDone(i)) /\ WF_vars(CloserNotif(i)) /\ WF_vars(CloserGWait(i))
        /\ WF_vars(TaskFinish) /\ WF_vars(LoopExit) /\ WF_vars(OcGather) /\ WF_vars(OcCands) /\ WF_vars(OcBuf) /\ WF_vars(OcState)
        /\ WF_vars(GatherStep) /\ WF_vars(GatherRefused) /\ WF_vars(RecvStop)
        /\ \A c \in CallerIds : WF_vars(CallerWakes(c))
        /\ WF_vars(HandlerStart) /\ \A s \in Streams : WF_vars(HandlerEnd(s))
Spec == Init /\ [][Next]_vars /\ Fair
\* ---------------- properties (C08)
AllReturned == \A i \in Closers : pc[i] = "ret"
CloseReturns == <>AllReturned
Unblocked == <>[](\A c \in CallerIds : callers[c] # "blocked")
NoLeak == <>[](loop = "exited" /\ recv = "exited" /\ gath \in {"none", "exited"} /\ AllIdle)
RetImpliesLoopExited == (\E i \in Closers : pc[i] \in {"notif", "gwait", "ret"}) => loop = "exited"
LoopExitedImpliesQuiet == loop = "exited" => (recv = "exited" /\ gath \in {"none", "exited"} /\ bufClosed /\ done)
NoTaskAfterReturn == (\E i \in Closers : pc[i] = "ret") => loop = "exited"
GracefulQuiet == \A i \in Closers : (pc[i] = "ret" /\ Graceful[i] /\ InCallback[i] = "") => (AllIdle /\ queue = <<>>)
ClosedLast == (delivered # <<>> /\ \E k \in 1..Len(delivered) : delivered[k] = "Closed") => delivered[Len(delivered)] = "Closed"
====
