---- MODULE AgentCloseTrace ----
(* Conformance of the close driver's event log (harness/close_test.go: every call start and     *)
(* return, every handler start and end of a real agent that is closed at some point of a         *)
(* connection history) to AgentClose. The log holds what is visible from outside: closers start  *)
(* and return, blocked callers return, handlers start and end. The steps of the close protocol    *)
(* itself (closeOnce, the loop's exit sequence, the receive loop, the gatherer, the wake-ups)     *)
(* cannot be logged; TLC places them between two logged events (Silent). A log is accepted iff    *)
(* every line can be consumed.                                                                     *)
(* What the model does not describe is named here, not hidden: events produced before the close   *)
(* (state changes, candidates, selected pairs) are not queue entries of the model - their handler  *)
(* starts only occupy the stream's drainer (PreEvent); calls that returned before any closer       *)
(* started have left the model's set of blocked callers (EarlyReturn).                             *)
(* Closer ids are the driver's names; a GracefulClose call carries the suffix "G" (added by the    *)
(* plan when it prepares the file), so that Graceful is a constant function of the id.             *)
EXTENDS AgentClose, Json
CONSTANT TraceFile
Tr == ndJsonDeserialize(TraceFile)
VARIABLES l,
          begun    \* closers whose call has started
tv == <<vars, l, begun>>
J == Tr[l]
TrClosers == {"api", "apiG", "api2", "api2G", "api3", "cbstate", "cbcand", "cbpair"}
TrGraceful == [i \in TrClosers |-> i \in {"apiG", "api2G"}]
TrInCallback == [i \in TrClosers |-> CASE i = "cbstate" -> "state" [] i = "cbcand" -> "cand" [] i = "cbpair" -> "pair" [] OTHER -> ""]
NoneBlocked == [c \in CallerIds |-> "blocked"]
\* the situation in which the close finds the agent is only partly known to the driver: TLC chooses the rest
Reset == /\ pc' = [i \in Closers |-> "start"] /\ onceTaken' = FALSE /\ done' = FALSE /\ sockClosed' = FALSE
         /\ loop' \in (IF J.cfg.blockWrite THEN {"idle", "task"} ELSE {"idle"})
         /\ gath' \in {"none", "running"} /\ gcancel' = FALSE
         /\ recv' \in {"reading", "exited"}          \* "exited": no candidate has been started yet
         /\ bufClosed' = FALSE /\ callers' = NoneBlocked
         /\ queue' = <<>> /\ drainer' = [s \in Streams |-> "idle"] /\ nclosed' = FALSE /\ delivered' = <<>>
         /\ begun' = {}
TInit == Init /\ l = 1 /\ begun = {}
Ev(e) == l <= Len(Tr) /\ J.ev = e /\ l' = l + 1
Stutter(e) == Ev(e) /\ UNCHANGED <<vars, begun>>
GracefulReturned == \E i \in begun : Graceful[i] /\ InCallback[i] = "" /\ pc[i] = "ret"
\* ---------------- the steps nobody can log
Silent == /\ UNCHANGED <<l, begun>>
          /\ \/ \E i \in begun : CloserOnce(i) \/ CloserLoopDone(i) \/ CloserNotif(i) \/ CloserGWait(i)
             \/ LoopTakeTask \/ TaskFinish \/ LoopExit \/ OcGather \/ OcCands \/ OcBuf \/ OcState
             \/ GatherStep \/ GatherRefused \/ RecvPacket \/ RecvStop
             \/ \E c \in CallerIds : CallerWakes(c)
\* ---------------- logged events
TBegin == Ev("Begin") /\ Reset
TCloseStart == Ev("CloseStart") /\ J.who \in Closers /\ J.who \notin begun /\ begun' = begun \cup {J.who} /\ UNCHANGED vars
TCloseReturn == Ev("CloseReturn") /\ J.who \in begun /\ pc[J.who] = "ret" /\ UNCHANGED <<vars, begun>>
\* a blocked caller returns: woken by the close with an error, or - before any close - with whatever its call produced
EarlyReturn == Ev("CallReturn") /\ J.who \in CallerIds /\ callers[J.who] = "blocked" /\ (J.err = "" \/ begun = {})
               /\ callers' = [callers EXCEPT ![J.who] = "ok"]
               /\ UNCHANGED <<pc, onceTaken, done, sockClosed, loop, gath, gcancel, recv, bufClosed, queue, drainer, nclosed, delivered, begun>>
WokenReturn == Ev("CallReturn") /\ J.who \in CallerIds /\ J.err # "" /\ callers[J.who] = "err" /\ UNCHANGED <<vars, begun>>
\* the handler of the Closed notification: the model's own queue entry
ClosedHandler == Ev("HStart") /\ J.who = "state" /\ J.st = "Closed" /\ HandlerStart /\ UNCHANGED begun
\* any other handler start: an event from before the close occupies the stream's drainer; none starts once a GracefulClose
\* (from an API goroutine) has returned
PreEvent == /\ Ev("HStart") /\ ~(J.who = "state" /\ J.st = "Closed") /\ J.who \in Streams
            /\ drainer[J.who] = "idle" /\ ~GracefulReturned
            /\ drainer' = [drainer EXCEPT ![J.who] = "handler"]
            /\ UNCHANGED <<pc, onceTaken, done, sockClosed, loop, gath, gcancel, recv, bufClosed, callers, queue, nclosed, delivered, begun>>
\* a handler returns; the one a closer runs in returns after that closer (only closers that did start count)
HandlerReturns == /\ Ev("HEnd") /\ J.who \in Streams /\ drainer[J.who] = "handler"
                  /\ \A i \in begun : InCallback[i] = J.who => pc[i] = "ret"
                  /\ drainer' = [drainer EXCEPT ![J.who] = "idle"]
                  /\ UNCHANGED <<pc, onceTaken, done, sockClosed, loop, gath, gcancel, recv, bufClosed, callers, queue, nclosed, delivered, begun>>
\* at the end of a scenario (a minute after everything) every closer that started has returned and the loop is gone
TQuiet == Ev("Quiet") /\ (begun # {} => (loop = "exited" /\ \A i \in begun : pc[i] = "ret")) /\ UNCHANGED <<vars, begun>>
TNext == \/ Silent \/ TBegin \/ TCloseStart \/ TCloseReturn \/ EarlyReturn \/ WokenReturn \/ ClosedHandler \/ PreEvent \/ HandlerReturns \/ TQuiet
         \/ Stutter("Call") \/ Stutter("CallStart") \/ Stutter("Settled") \/ Stutter("After") \/ Stutter("AfterSnapshot") \/ Stutter("End")
TSpec == TInit /\ [][TNext]_tv
\* high-water mark of the consumed prefix (one worker)
HWM == IF l > TLCGet(1) THEN TLCSet(1, l) ELSE TRUE
HWMInit == TLCSet(1, 0)
ASSUME HWMInit
Accepted == IF TLCGet(1) = Len(Tr) + 1 THEN TRUE
            ELSE Print(<<"TRACE_REJECTED_AT", TLCGet(1), Len(Tr)>>, FALSE)
====
