---- MODULE CloseMon ----
(* C08 verdicts from the event log of the close driver (harness/close_test.go):   *)
(* every call start/return, every handler start/end and what API calls return     *)
(* after Close, recorded from a real agent inside a synctest bubble. The bubble's   *)
(* deadlock verdict (a closer or blocked caller that never returns, a goroutine     *)
(* left behind) arrives as the err field of the End event.                          *)
EXTENDS Naturals, Sequences, FiniteSets, TLC, Json
CONSTANTS TraceFile, Check
Tr == ndJsonDeserialize(TraceFile)
VARIABLES l, ev,
          openCalls,    \* blocked API callers that have not returned yet
          openClosers,  \* closers that have not returned yet
          closeRet,     \* some Close/GracefulClose has returned
          gracefulRet,  \* a GracefulClose has returned
          hOpen,        \* handlers currently running
          states,       \* sequence of notified connection states
          viol          \* names of predicates violated by the last event
vars == <<l, ev, openCalls, openClosers, closeRet, gracefulRet, hOpen, states, viol>>
ClosedErr == "the agent is closed"
StateDependent == {"GetLocalCandidates", "GetRemoteCandidates", "Restart", "GatherCandidates", "SetRemoteCredentials",
                   "GetGatheringState", "GetLocalUserCredentials", "Dial", "Read", "Write"}
Blocking == {"dial", "await", "read", "write"}
Last(s) == IF s = <<>> THEN "" ELSE s[Len(s)]
Judge(e, oc, ocl, cr, gr, ho, sts) ==
  {n \in Check :
     \/ n = "C08_NoLeak" /\ e.ev = "End" /\ e.err # ""
     \/ n = "C08_CloseReturns" /\ ((e.ev = "Settled" /\ e.n # e.closers) \/ (e.ev = "Quiet" /\ ocl # {}))
     \/ n = "C08_Unblocked" /\ ((e.ev = "Quiet" /\ oc # {}) \/ (e.ev = "CallReturn" /\ cr /\ e.who \in {"read", "write"} /\ e.err = ""))
     \/ n = "C08_FinalPrompt" /\ e.ev = "After" /\ e.err = "BLOCKED"
     \/ n = "C08_FinalClosedError" /\ e.ev = "After" /\ e.who \in StateDependent /\ e.err # ClosedErr
     \/ n = "C08_FinalCloseIdempotent" /\ e.ev = "After" /\ e.who \in {"Close", "GracefulClose"} /\ e.err # ""
     \/ n = "C08_FinalNoTask" /\ e.ev = "AfterSnapshot" /\ e.ok
     \/ n = "C08_LastIsClosed" /\ e.ev = "Quiet" /\ (Last(sts) # "Closed" \/ Cardinality({k \in 1..Len(sts) : sts[k] = "Closed"}) # 1)
     \/ n = "C08_NothingAfterClosed" /\ e.ev = "HStart" /\ e.who = "state" /\ Last(sts) = "Closed"
     \/ n = "C08_GracefulQuiet" /\ ((e.ev = "HStart" /\ gr) \/ (e.ev = "CloseReturn" /\ e.graceful /\ e.who \notin {"cbstate", "cbcand", "cbpair"} /\ ho # {}))
     \/ n = "C08_CloseNoError" /\ e.ev = "CloseReturn" /\ e.err # ""}
Init == l = 1 /\ ev = [ev |-> "None"] /\ openCalls = {} /\ openClosers = {} /\ closeRet = FALSE /\ gracefulRet = FALSE
        /\ hOpen = {} /\ states = <<>> /\ viol = {}
Step ==
  /\ l <= Len(Tr) /\ l' = l + 1 /\ ev' = Tr[l]
  /\ LET e == Tr[l]  b == e.ev = "Begin" IN
     /\ viol' = IF b THEN {} ELSE Judge(e, openCalls, openClosers, closeRet, gracefulRet, hOpen, states)
     /\ openCalls' = IF b THEN {} ELSE IF e.ev = "CallStart" THEN openCalls \cup {e.who}
                     ELSE IF e.ev = "CallReturn" THEN openCalls \ {e.who} ELSE openCalls
     /\ openClosers' = IF b THEN {} ELSE IF e.ev = "CloseStart" THEN openClosers \cup {e.who}
                       ELSE IF e.ev = "CloseReturn" THEN openClosers \ {e.who} ELSE openClosers
     /\ closeRet' = IF b THEN FALSE ELSE closeRet \/ e.ev = "CloseReturn"
     /\ gracefulRet' = IF b THEN FALSE ELSE gracefulRet \/ (e.ev = "CloseReturn" /\ e.graceful /\ e.who \notin {"cbstate", "cbcand", "cbpair"})
     /\ hOpen' = IF b THEN {} ELSE IF e.ev = "HStart" THEN hOpen \cup {e.who} ELSE IF e.ev = "HEnd" THEN hOpen \ {e.who} ELSE hOpen
     /\ states' = IF b THEN <<>> ELSE IF e.ev = "HStart" /\ e.who = "state" THEN Append(states, e.st) ELSE states
Spec == Init /\ [][Step]_vars
Report == \A n \in viol : PrintT(<<"VIOL", n, l - 1>>)
Done == IF TLCGet("stats").diameter = Len(Tr) + 1 THEN TRUE
        ELSE Print(<<"MONITOR_STOPPED_AT", TLCGet("stats").diameter, Len(Tr)>>, FALSE)
====
